// ---------------------------------------------------------------------------
// Pure / bit-level contracts (C17, C18, C20 arithmetic).
//
// Every contract is a pair of plain-Rust predicates `pre_*` / `post_*` (the specification,
// written independently of the code under test) and an obligation `h_*` that draws inputs,
// evaluates pre, calls the REAL function and evaluates post, one `ensure!` per clause.
// The three arithmetic functions additionally carry Kani function contracts
// (`#[kani::requires/ensures]` on one-line forwarders, proved with `proof_for_contract`).
// ---------------------------------------------------------------------------

pub const GROUP_WIDTH: usize = Group::WIDTH;
/// Bits per lane of a `BitMask` word (1 for SSE2, 8 for the portable scanner).
pub const STRIDE: usize = if Group::WIDTH == 16 { 1 } else { 8 };

#[inline]
pub(crate) fn tag_of(b: u8) -> Tag {
    unsafe { core::mem::transmute::<u8, Tag>(b) }
}
#[inline]
pub(crate) fn tag_u8(t: Tag) -> u8 {
    unsafe { core::mem::transmute::<Tag, u8>(t) }
}

pub const EMPTY: u8 = 0xFF;
pub const DELETED: u8 = 0x80;

// ----- specification side -----

/// Usable capacity of a table with `mask + 1` buckets (7/8 load; tiny tables keep one slot).
pub fn spec_cap_of(mask: usize) -> usize {
    if mask < 8 {
        mask
    } else {
        ((mask + 1) / 8) * 7
    }
}

/// top 7 bits of a 64-bit hash
pub fn spec_tag(hash: u64) -> u8 {
    (hash >> 57) as u8
}

pub fn pre_capacity_to_buckets(cap: usize) -> bool {
    cap != 0
}

fn min_ok(b: usize, size: usize) -> bool {
    let elt = if size == 0 { 1 } else { size };
    b.saturating_mul(elt) >= Group::WIDTH || b >= 16
}

/// C17: either overflow is reported (only when `cap * 8` is not representable) or the result is a
/// power of two >= 4 whose usable capacity is >= cap and < buckets; it is the smallest such
/// power of two that also respects the small-element minimum `buckets * max(size,1) >= WIDTH`.
pub fn post_capacity_to_buckets(cap: usize, size: usize, r: &Option<usize>) -> bool {
    match *r {
        None => cap.checked_mul(8).is_none(),
        Some(b) => {
            b.is_power_of_two()
                && b >= 4
                && cap.checked_mul(8).is_some()
                && cap <= spec_cap_of(b - 1)
                && spec_cap_of(b - 1) < b
                && min_ok(b, size)
                && (b == 4 || spec_cap_of(b / 2 - 1) < cap || !min_ok(b / 2, size))
        }
    }
}

pub fn h_capacity_to_buckets<S: Src>(s: &mut S) -> Chk {
    let (cap, size, align) = (s.usize(), s.usize(), s.usize());
    req!(s, pre_capacity_to_buckets(cap));
    reach!(cap >= 15 && cap.checked_mul(8).is_some(), "large capacity without overflow");
    reach!(cap.checked_mul(8).is_none(), "overflowing capacity");
    let r = capacity_to_buckets(cap, TableLayout { size, ctrl_align: align });
    ensure!(r.is_some() || cap.checked_mul(8).is_none(), "capacity_to_buckets: None only when cap*8 overflows");
    if let Some(b) = r {
        ensure!(b.is_power_of_two() && b >= 4, "capacity_to_buckets: power of two >= 4");
        ensure!(cap <= spec_cap_of(b - 1), "capacity_to_buckets: usable capacity >= request");
        ensure!(spec_cap_of(b - 1) < b, "capacity_to_buckets: one slot always stays empty");
        ensure!(min_ok(b, size), "capacity_to_buckets: small-element minimum buckets*size >= WIDTH");
        ensure!(
            b == 4 || spec_cap_of(b / 2 - 1) < cap || !min_ok(b / 2, size),
            "capacity_to_buckets: smallest admissible power of two"
        );
    }
    ensure!(post_capacity_to_buckets(cap, size, &r), "capacity_to_buckets: postcondition");
    Ok(())
}

pub fn pre_bucket_mask_to_capacity(mask: usize) -> bool {
    mask != usize::MAX && (mask + 1).is_power_of_two()
}
pub fn post_bucket_mask_to_capacity(mask: usize, r: usize) -> bool {
    r == spec_cap_of(mask) && r <= mask && (mask == 0 || (r >= 1 && r < mask + 1))
}
pub fn h_bucket_mask_to_capacity<S: Src>(s: &mut S) -> Chk {
    let (m1, m2) = (s.usize(), s.usize());
    req!(s, pre_bucket_mask_to_capacity(m1));
    let r = bucket_mask_to_capacity(m1);
    ensure!(r == spec_cap_of(m1), "bucket_mask_to_capacity: 7/8 load (identity below 8)");
    ensure!(r <= m1, "bucket_mask_to_capacity: capacity < buckets");
    ensure!(m1 == 0 || r >= 1, "bucket_mask_to_capacity: capacity >= 1 for allocated tables");
    // monotone in the mask (used by the churn bound and the shrink contract)
    req!(s, pre_bucket_mask_to_capacity(m2) && m1 <= m2);
    ensure!(r <= bucket_mask_to_capacity(m2), "bucket_mask_to_capacity: monotone");
    Ok(())
}

pub fn pre_calculate_layout_for(size: usize, align: usize, buckets: usize) -> bool {
    buckets.is_power_of_two() && align.is_power_of_two() && align >= Group::WIDTH
}
/// exact arithmetic in u128: (fits, ctrl_offset, total size)
fn spec_layout(size: usize, align: usize, buckets: usize) -> (bool, u128, u128) {
    let data = (size as u128) * (buckets as u128);
    let off = (data + (align as u128 - 1)) & !(align as u128 - 1);
    let len = off + buckets as u128 + Group::WIDTH as u128;
    (len <= (isize::MAX as u128) - (align as u128 - 1), off, len)
}
pub fn post_calculate_layout_for(
    size: usize,
    align: usize,
    buckets: usize,
    r: Option<(usize, usize, usize)>, // (layout.size, layout.align, ctrl_offset)
) -> bool {
    let (fits, off, len) = spec_layout(size, align, buckets);
    let data = (size as u128) * (buckets as u128);
    match r {
        None => !fits,
        Some((lsize, lalign, ctrl_offset)) => {
            fits && ctrl_offset as u128 == off
                && lsize as u128 == len
                && lalign == align
                && ctrl_offset as u128 >= data
                && ctrl_offset % align == 0
                && (ctrl_offset as u128) - data < align as u128
        }
    }
}
pub fn h_calculate_layout_for<S: Src>(s: &mut S) -> Chk {
    let (size, align, buckets) = (s.usize(), s.usize(), s.usize());
    req!(s, pre_calculate_layout_for(size, align, buckets));
    let r = TableLayout { size, ctrl_align: align }.calculate_layout_for(buckets);
    let r = r.map(|(l, off)| (l.size(), l.align(), off));
    let (fits, off, len) = spec_layout(size, align, buckets);
    let data = (size as u128) * (buckets as u128);
    reach!(r.is_none(), "layout overflow reported");
    reach!(r.is_some() && size > 0, "layout computed");
    ensure!(r.is_some() == fits, "calculate_layout_for: None exactly when the padded size exceeds isize::MAX");
    if let Some((lsize, lalign, ctrl_offset)) = r {
        ensure!(ctrl_offset as u128 >= data, "calculate_layout_for: control bytes start after every element");
        ensure!(ctrl_offset % align == 0, "calculate_layout_for: control bytes aligned for group loads and elements");
        ensure!((ctrl_offset as u128) - data < align as u128, "calculate_layout_for: minimal padding");
        ensure!(ctrl_offset as u128 == off, "calculate_layout_for: ctrl offset is the exact round-up");
        ensure!(lsize as u128 == len, "calculate_layout_for: size = elements + buckets + mirrored group");
        ensure!(lalign == align, "calculate_layout_for: alignment");
        ensure!(lsize <= isize::MAX as usize - (align - 1), "calculate_layout_for: Layout validity (size rounded up fits isize)");
    }
    ensure!(post_calculate_layout_for(size, align, buckets, r), "calculate_layout_for: postcondition");
    Ok(())
}

fn chk_table_layout_new<T>() -> Chk {
    let l = TableLayout::new::<T>();
    let a = core::mem::align_of::<T>();
    ensure!(l.size == core::mem::size_of::<T>(), "TableLayout::new: size");
    ensure!(l.ctrl_align == (if a > Group::WIDTH { a } else { Group::WIDTH }), "TableLayout::new: ctrl_align = max(align_of T, WIDTH)");
    ensure!(l.ctrl_align.is_power_of_two() && l.ctrl_align >= a, "TableLayout::new: alignment sufficient for elements");
    Ok(())
}
#[repr(align(64))]
pub struct A64(pub [u8; 64]);
pub fn h_table_layout_new<S: Src>(_s: &mut S) -> Chk {
    sub!(chk_table_layout_new::<()>());
    sub!(chk_table_layout_new::<u8>());
    sub!(chk_table_layout_new::<u16>());
    sub!(chk_table_layout_new::<u64>());
    sub!(chk_table_layout_new::<[u64; 3]>());
    sub!(chk_table_layout_new::<[u8; 200]>());
    sub!(chk_table_layout_new::<A64>());
    sub!(chk_table_layout_new::<(u64, u8)>());
    Ok(())
}

// Bucket pointer arithmetic: a bucket handle is "index i relative to the table's base"; from_base_index, next_n,
// to_base_index and as_ptr must agree on that for sized and for zero-sized elements (where the "pointer" IS the index)
fn chk_bucket_index<T, S: Src>(s: &mut S) -> Chk {
    const SLOTS: usize = 8;
    let mut store: [core::mem::MaybeUninit<T>; SLOTS] = unsafe { core::mem::MaybeUninit::uninit().assume_init() };
    let zst = core::mem::size_of::<T>() == 0;
    // sized elements: the handle must stay inside the table's data part; ZST: any index a table can have
    let (i, k) = if zst { (s.usize() >> 2, s.usize() >> 2) } else { let i = s.below(SLOTS); (i, s.below(SLOTS - i)) };
    unsafe {
        let base: NonNull<T> = NonNull::new_unchecked((store.as_mut_ptr() as *mut T).add(if zst { 0 } else { SLOTS }));
        let b = Bucket::<T>::from_base_index(base, i);
        ensure!(b.to_base_index(base) == i, "Bucket: to_base_index(from_base_index(base, i)) == i");
        let c = b.next_n(k);
        reach!(k > 0 && i > 0, "bucket handle moved on from a non-zero index");
        ensure!(c.to_base_index(base) == i + k, "Bucket: next_n(k) moves the handle k buckets on");
        let d = Bucket::<T>::from_base_index(base, i + k);
        ensure!(c.ptr == d.ptr, "Bucket: next_n(k) after from_base_index(i) is from_base_index(i + k)");
        if !zst {
            ensure!(c.as_ptr() == base.as_ptr().sub(i + k + 1), "Bucket: as_ptr is the start of element i + k, counted down from base");
        } else {
            ensure!(c.as_ptr() as usize == core::mem::align_of::<T>(), "Bucket: as_ptr of a ZST handle is aligned and non-null");
        }
    }
    Ok(())
}
#[derive(Clone, Copy)]
#[repr(align(8))]
pub struct Z8;
pub fn h_bucket_index<S: Src>(s: &mut S) -> Chk {
    sub!(chk_bucket_index::<(), S>(s));
    sub!(chk_bucket_index::<Z8, S>(s));
    sub!(chk_bucket_index::<u8, S>(s));
    sub!(chk_bucket_index::<u64, S>(s));
    sub!(chk_bucket_index::<[u64; 3], S>(s));
    Ok(())
}

pub fn pre_move_next(pos: usize, stride: usize, mask: usize) -> bool {
    // a table's allocation (buckets + WIDTH control bytes at least) fits isize::MAX
    // (calculate_layout_for's contract), hence the bound on mask
    mask < (1usize << 62) && (mask + 1).is_power_of_two() && pos <= mask && stride <= mask
}
pub fn h_move_next<S: Src>(s: &mut S) -> Chk {
    let (pos, stride, mask) = (s.usize(), s.usize(), s.usize());
    req!(s, pre_move_next(pos, stride, mask));
    let mut p = ProbeSeq { pos, stride };
    p.move_next(mask);
    let st2 = stride as u128 + Group::WIDTH as u128;
    let pos2 = ((pos as u128 + st2) & mask as u128) as usize;
    ensure!(p.stride as u128 == st2, "ProbeSeq::move_next: stride grows by one group width");
    ensure!(p.pos == pos2 && p.pos <= mask, "ProbeSeq::move_next: pos = (pos + stride') & mask");
    Ok(())
}

pub fn h_h1<S: Src>(s: &mut S) -> Chk {
    let hash = s.u64();
    ensure!(h1(hash) == hash as usize, "h1: low bits of the hash");
    Ok(())
}

/// C17 (bounded part): the probe sequence of a table with `groups` groups visits `groups`
/// pairwise-different group offsets in its first `groups` steps, from any start position.
pub fn h_probe_cycle<S: Src>(s: &mut S) -> Chk {
    let g = s.u8();
    req!(s, g <= 6);
    let mask = (Group::WIDTH << g) - 1;
    let start = s.usize();
    let groups = (mask + 1) / Group::WIDTH;
    let mut p = ProbeSeq { pos: start & mask, stride: 0 };
    let base = p.pos;
    let mut seen: u64 = 0;
    let mut k = 0;
    while k < groups {
        let off = p.pos.wrapping_sub(base) & mask;
        ensure!(off % Group::WIDTH == 0, "probe sequence: positions are whole groups away from the start");
        let d = off / Group::WIDTH;
        ensure!(seen >> d & 1 == 0, "probe sequence: no group visited twice before all are visited");
        seen |= 1 << d;
        if k + 1 < groups {
            ensure!(p.stride <= mask, "probe sequence: stride stays within the table (upstream debug assertion)");
            p.move_next(mask);
        }
        k += 1;
    }
    Ok(())
}

// ----- Tag -----
pub fn h_tag<S: Src>(s: &mut S) -> Chk {
    let (hash, b) = (s.u64(), s.u8());
    let t = Tag::full(hash);
    ensure!(tag_u8(t) == spec_tag(hash) && tag_u8(t) < 0x80, "Tag::full: top 7 bits of the hash");
    ensure!(t.is_full() && !t.is_special(), "Tag::full: result is classified full");
    let x = tag_of(b);
    ensure!(x.is_full() == (b < 0x80), "Tag::is_full");
    ensure!(x.is_special() == (b >= 0x80), "Tag::is_special");
    ensure!(b != EMPTY || x.special_is_empty(), "Tag::special_is_empty(EMPTY)");
    ensure!(b != DELETED || !x.special_is_empty(), "Tag::special_is_empty(DELETED)");
    ensure!(tag_u8(Tag::EMPTY) == EMPTY && tag_u8(Tag::DELETED) == DELETED, "Tag constants");
    Ok(())
}

// ----- Group primitives against their byte-by-byte definition (C18) -----

#[repr(C, align(64))]
#[derive(Clone, Copy)]
pub struct Aligned<const M: usize>(pub [u8; M]);

#[inline]
pub fn bm_bit<M: Copy + Into<u64>>(m: M, i: usize) -> bool {
    (m.into() >> (i * STRIDE + (STRIDE - 1))) & 1 == 1
}

/// 32 control bytes satisfying the type invariant of a control byte: EMPTY, DELETED or a 7-bit tag
/// (the portable scanner's match_empty relies on it: "if the high bit is set the byte is EMPTY or DELETED")
fn draw32<S: Src>(s: &mut S) -> (Aligned<32>, bool) {
    let mut a = Aligned::<32>([0u8; 32]);
    let mut ok = true;
    for_upto!(i, 32, {
        let b = s.u8();
        a.0[i] = b;
        ok &= b < 0x80 || b == EMPTY || b == DELETED;
    });
    (a, ok)
}

pub fn h_group<S: Src>(s: &mut S) -> Chk {
    let (bytes, valid) = draw32(s);
    let off = s.usize();
    let tagb = s.u8();
    req!(s, valid && off <= 16);
    let w = Group::WIDTH;
    let p: *const Tag = bytes.0.as_ptr().cast();
    let g = unsafe { Group::load(p.add(off)) };
    let ga = unsafe { Group::load_aligned(p) };
    let tb = tagb & 0x7f;
    let tag = tag_of(tb);

    let mut out = Aligned::<32>([0u8; 32]);
    unsafe { ga.store_aligned(out.0.as_mut_ptr().cast()) };
    let mut i = 0;
    while i < w {
        ensure!(out.0[i] == bytes.0[i], "Group::load_aligned/store_aligned round trip");
        i += 1;
    }

    let m_tag = g.match_tag(tag).0;
    let m_empty = g.match_empty().0;
    let m_eod = g.match_empty_or_deleted().0;
    let m_full = g.match_full().0;
    let conv = g.convert_special_to_empty_and_full_to_deleted();
    let mut cv = Aligned::<32>([0u8; 32]);
    unsafe { conv.store_aligned(cv.0.as_mut_ptr().cast()) };

    let mut seen_true_match = false;
    let mut i = 0;
    while i < w {
        let b = bytes.0[off + i];
        ensure!(bm_bit(m_empty, i) == (b == EMPTY), "Group::match_empty equals the bytewise definition");
        ensure!(bm_bit(m_eod, i) == (b >= 0x80), "Group::match_empty_or_deleted equals the bytewise definition");
        ensure!(bm_bit(m_full, i) == (b < 0x80), "Group::match_full equals the bytewise definition");
        let want = if b >= 0x80 { EMPTY } else { DELETED };
        ensure!(cv.0[i] == want, "Group::convert_special_to_empty_and_full_to_deleted equals the bytewise definition");
        let hit = bm_bit(m_tag, i);
        if b == tb {
            ensure!(hit, "Group::match_tag reports every true match");
            seen_true_match = true;
        } else if hit {
            // only the portable scanner may report a false positive, and only a byte that
            // differs from the tag in its lowest bit, above a true match
            ensure!(
                Group::WIDTH != 16 && (b ^ tb) == 1 && seen_true_match,
                "Group::match_tag reports only the tag (portable: or a low-bit neighbour above a true match)"
            );
        }
        i += 1;
    }
    let lanes: u64 = if STRIDE == 1 { 0xffff } else { 0x8080_8080_8080_8080 };
    let all = (m_tag as u64) | (m_empty as u64) | (m_eod as u64) | (m_full as u64);
    ensure!(all & !lanes == 0, "Group::match_*: no stray bits outside lane markers");
    Ok(())
}

/// BitMask queries and iteration on every mask a scanner can produce
/// (match_full over all groups produces every lane pattern).
pub fn h_bitmask<S: Src>(s: &mut S) -> Chk {
    let (bytes, valid) = draw32(s);
    req!(s, valid);
    let w = Group::WIDTH;
    let g = unsafe { Group::load_aligned(bytes.0.as_ptr().cast()) };
    let m = g.match_full();
    let mut lanes = [false; 16];
    let mut n = 0usize;
    let mut first = usize::MAX;
    let mut last = usize::MAX;
    let mut i = 0;
    while i < w {
        lanes[i] = bytes.0[i] < 0x80;
        if lanes[i] {
            n += 1;
            if first == usize::MAX {
                first = i;
            }
            last = i;
        }
        i += 1;
    }
    ensure!(m.any_bit_set() == (n != 0), "BitMask::any_bit_set");
    match m.lowest_set_bit() {
        None => ensure!(n == 0, "BitMask::lowest_set_bit: None only on the empty mask"),
        Some(b) => ensure!(n != 0 && b == first, "BitMask::lowest_set_bit: the lowest lane"),
    }
    ensure!(m.trailing_zeros() == (if n == 0 { w } else { first }), "BitMask::trailing_zeros in lane units");
    ensure!(m.leading_zeros() == (if n == 0 { w } else { w - 1 - last }), "BitMask::leading_zeros in lane units");
    let inv = m.invert();
    let mut i = 0;
    while i < w {
        ensure!(bm_bit(inv.0, i) != lanes[i], "BitMask::invert flips every lane");
        i += 1;
    }
    let mut it = m.into_iter();
    let mut i = 0;
    while i < w {
        if lanes[i] {
            match it.next() {
                Some(b) => ensure!(b == i, "BitMaskIter::next: ascending, each set lane once"),
                None => ensure!(false, "BitMaskIter::next: ends before all lanes were yielded"),
            }
        }
        i += 1;
    }
    ensure!(it.next().is_none() && it.next().is_none(), "BitMaskIter::next: None after exhaustion");
    Ok(())
}

pub fn h_static_empty<S: Src>(_s: &mut S) -> Chk {
    let e = Group::static_empty();
    ensure!((e.as_ptr() as usize) % Group::WIDTH == 0, "Group::static_empty: group aligned");
    let mut i = 0;
    while i < Group::WIDTH {
        ensure!(tag_u8(e[i]) == EMPTY, "Group::static_empty: all EMPTY");
        i += 1;
    }
    Ok(())
}

/// std functions whose specifications the Verus preludes assume: discharged here against the
/// real std code over the full domain.
pub fn h_std_specs<S: Src>(s: &mut S) -> Chk {
    let x = s.usize();
    req!(s, x <= 1usize << 63);
    let r = x.next_power_of_two();
    ensure!(r.is_power_of_two() && r >= x && r >= 1, "std next_power_of_two: power of two >= x");
    ensure!(x <= 1 || r / 2 < x, "std next_power_of_two: the smallest one");
    ensure!(x > 1 || r == 1, "std next_power_of_two: 1 for x <= 1");
    let y = s.usize();
    ensure!(y.is_power_of_two() == (y != 0 && y & y.wrapping_sub(1) == 0), "std is_power_of_two: bit trick definition");
    ensure!(usize::from(true) == 1 && usize::from(false) == 0, "std usize::from(bool)");
    Ok(())
}

// ----- serde size hint (C20) -----
#[cfg(feature = "serde")]
pub fn h_cautious<S: Src>(s: &mut S) -> Chk {
    let some = s.bool();
    let h = s.usize();
    let hint = if some { Some(h) } else { None };
    let r = crate::external_trait_impls::serde_verif::cautious(hint);
    ensure!(r <= 4096, "serde size_hint::cautious: bounded by 4096 whatever the input claims");
    ensure!(hint.is_some() || r == 0, "serde size_hint::cautious: 0 without a hint");
    ensure!(!some || r == (if h < 4096 { h } else { 4096 }), "serde size_hint::cautious: min(hint, 4096)");
    Ok(())
}
#[cfg(not(feature = "serde"))]
pub fn h_cautious<S: Src>(_s: &mut S) -> Chk {
    Ok(())
}

// ---------------------------------------------------------------------------
// Kani function contracts (modular route) on one-line forwarders to the real functions
// ---------------------------------------------------------------------------
#[cfg(kani)]
mod pure_k {
    use super::*;

    #[kani::requires(pre_capacity_to_buckets(cap))]
    #[kani::ensures(|r| post_capacity_to_buckets(cap, size, r))]
    pub fn capacity_to_buckets_c(cap: usize, size: usize, align: usize) -> Option<usize> {
        capacity_to_buckets(cap, TableLayout { size, ctrl_align: align })
    }
    #[kani::proof_for_contract(capacity_to_buckets_c)]
    fn kc_capacity_to_buckets() {
        capacity_to_buckets_c(kani::any(), kani::any(), kani::any());
    }

    #[kani::requires(pre_bucket_mask_to_capacity(mask))]
    #[kani::ensures(|r| post_bucket_mask_to_capacity(mask, *r))]
    pub fn bucket_mask_to_capacity_c(mask: usize) -> usize {
        bucket_mask_to_capacity(mask)
    }
    #[kani::proof_for_contract(bucket_mask_to_capacity_c)]
    fn kc_bucket_mask_to_capacity() {
        bucket_mask_to_capacity_c(kani::any());
    }

    #[kani::requires(pre_calculate_layout_for(size, align, buckets))]
    #[kani::ensures(|r| post_calculate_layout_for(size, align, buckets, *r))]
    pub fn calculate_layout_for_c(size: usize, align: usize, buckets: usize) -> Option<(usize, usize, usize)> {
        TableLayout { size, ctrl_align: align }
            .calculate_layout_for(buckets)
            .map(|(l, off)| (l.size(), l.align(), off))
    }
    #[kani::proof_for_contract(calculate_layout_for_c)]
    fn kc_calculate_layout_for() {
        calculate_layout_for_c(kani::any(), kani::any(), kani::any());
    }

    // a caller checked against the contracts only (stub_verified): with_capacity's bucket
    // computation followed by the layout computation never yields an invalid Layout
    #[kani::proof]
    #[kani::stub_verified(capacity_to_buckets_c)]
    #[kani::stub_verified(calculate_layout_for_c)]
    fn kc_caller_capacity_then_layout() {
        let cap: usize = kani::any();
        let size: usize = kani::any();
        let align: usize = kani::any();
        kani::assume(cap != 0 && align.is_power_of_two() && align >= Group::WIDTH);
        if let Some(b) = capacity_to_buckets_c(cap, size, align) {
            if let Some((lsize, lalign, off)) = calculate_layout_for_c(size, align, b) {
                assert!(lsize >= off && lsize - off == b + Group::WIDTH);
                assert!(lsize <= isize::MAX as usize - (lalign - 1));
                assert!(spec_cap_of(b - 1) >= cap && spec_cap_of(b - 1) < b);
            }
        }
    }
}
