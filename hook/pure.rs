// ---------------------------------------------------------------------------
// Pure / bit-level contracts (C17, C18, C20 arithmetic).
//
// Every contract is a pair of plain-Rust predicates `pre_*` / `post_*` plus a
// check function `chk_*` that evaluates pre, calls the REAL function and
// evaluates post.  The Kani function contracts (`#[kani::requires/ensures]`,
// proved with `proof_for_contract`) and the native replay binary use the same
// predicates, so a counterexample found by CBMC can be re-run on the real code.
// ---------------------------------------------------------------------------

pub const GROUP_WIDTH: usize = Group::WIDTH;
/// Bits per lane of a `BitMask` word (1 for SSE2, 8 for the portable scanner).
pub const STRIDE: usize = if Group::WIDTH == 16 { 1 } else { 8 };

pub type Chk = Result<(), &'static str>;

#[inline]
pub(crate) fn tag_of(b: u8) -> Tag {
    unsafe { core::mem::transmute::<u8, Tag>(b) }
}
#[inline]
pub(crate) fn tag_u8(t: Tag) -> u8 {
    unsafe { core::mem::transmute::<Tag, u8>(t) }
}

pub const EMPTY: u8 = 0xFF;
pub const DELETED: u8 = 0x80;

// ----- specification side, written independently of the code under test -----

/// Usable capacity of a table with `mask + 1` buckets (spec: 7/8 load, tiny tables keep one slot).
pub fn spec_cap_of(mask: usize) -> usize {
    if mask < 8 {
        mask
    } else {
        ((mask + 1) / 8) * 7
    }
}

/// top 7 bits of a 64-bit hash
pub fn spec_tag(hash: u64) -> u8 {
    (hash >> 57) as u8
}

pub fn pre_capacity_to_buckets(cap: usize) -> bool {
    cap != 0
}

/// C17: either overflow is reported (only when `cap * 8` is not representable) or the result is a
/// power of two >= 4 whose usable capacity is >= cap and < buckets; it is the smallest such
/// power of two that also respects the small-element minimum `buckets * max(size,1) >= WIDTH`.
pub fn post_capacity_to_buckets(cap: usize, size: usize, r: &Option<usize>) -> bool {
    match *r {
        None => cap.checked_mul(8).is_none(),
        Some(b) => {
            let elt = if size == 0 { 1 } else { size };
            let min_ok = |b: usize| b.saturating_mul(elt) >= Group::WIDTH || b >= 16;
            b.is_power_of_two()
                && b >= 4
                && cap.checked_mul(8).is_some()
                && cap <= spec_cap_of(b - 1)
                && spec_cap_of(b - 1) < b
                && min_ok(b)
                // minimality: half the size would not do
                && (b == 4 || spec_cap_of(b / 2 - 1) < cap || !min_ok(b / 2))
        }
    }
}

pub fn chk_capacity_to_buckets(cap: usize, size: usize, align: usize) -> Chk {
    if !pre_capacity_to_buckets(cap) {
        return Ok(());
    }
    let r = capacity_to_buckets(cap, TableLayout { size, ctrl_align: align });
    if post_capacity_to_buckets(cap, size, &r) {
        Ok(())
    } else {
        Err("capacity_to_buckets: postcondition")
    }
}

pub fn pre_bucket_mask_to_capacity(mask: usize) -> bool {
    mask != usize::MAX && (mask + 1).is_power_of_two()
}
pub fn post_bucket_mask_to_capacity(mask: usize, r: usize) -> bool {
    r == spec_cap_of(mask) && r <= mask && (mask == 0 || (r >= 1 && r < mask + 1))
}
pub fn chk_bucket_mask_to_capacity(mask: usize) -> Chk {
    if !pre_bucket_mask_to_capacity(mask) {
        return Ok(());
    }
    if post_bucket_mask_to_capacity(mask, bucket_mask_to_capacity(mask)) {
        Ok(())
    } else {
        Err("bucket_mask_to_capacity: postcondition")
    }
}
/// monotone in the mask (needed by the churn bound and the shrink contract)
pub fn chk_bucket_mask_to_capacity_monotone(m1: usize, m2: usize) -> Chk {
    if !(pre_bucket_mask_to_capacity(m1) && pre_bucket_mask_to_capacity(m2) && m1 <= m2) {
        return Ok(());
    }
    if bucket_mask_to_capacity(m1) <= bucket_mask_to_capacity(m2) {
        Ok(())
    } else {
        Err("bucket_mask_to_capacity: not monotone")
    }
}

pub fn pre_calculate_layout_for(size: usize, align: usize, buckets: usize) -> bool {
    buckets.is_power_of_two() && align.is_power_of_two() && align >= Group::WIDTH
}
/// C17: `None` exactly when the exact mathematical size does not fit `isize::MAX` after padding;
/// otherwise the control bytes start after all elements, aligned, with minimal padding, the size
/// covers elements + buckets + one mirrored group, and the Layout is valid.
pub fn post_calculate_layout_for(
    size: usize,
    align: usize,
    buckets: usize,
    r: Option<(usize, usize, usize)>, // (layout.size, layout.align, ctrl_offset)
) -> bool {
    // exact arithmetic in u128
    let data = (size as u128) * (buckets as u128);
    let off = (data + (align as u128 - 1)) & !(align as u128 - 1);
    let len = off + buckets as u128 + Group::WIDTH as u128;
    let fits = len <= (isize::MAX as u128) - (align as u128 - 1);
    match r {
        None => !fits,
        Some((lsize, lalign, ctrl_offset)) => {
            fits
                && ctrl_offset as u128 == off
                && lsize as u128 == len
                && lalign == align
                && ctrl_offset as u128 >= data
                && ctrl_offset % align == 0
                && (ctrl_offset as u128) - data < align as u128
        }
    }
}
pub fn chk_calculate_layout_for(size: usize, align: usize, buckets: usize) -> Chk {
    if !pre_calculate_layout_for(size, align, buckets) {
        return Ok(());
    }
    let r = TableLayout { size, ctrl_align: align }.calculate_layout_for(buckets);
    let r = r.map(|(l, off)| (l.size(), l.align(), off));
    if post_calculate_layout_for(size, align, buckets, r) {
        Ok(())
    } else {
        Err("calculate_layout_for: postcondition")
    }
}

pub fn chk_table_layout_new<T>() -> Chk {
    let l = TableLayout::new::<T>();
    let a = core::mem::align_of::<T>();
    if l.size == core::mem::size_of::<T>()
        && l.ctrl_align == (if a > Group::WIDTH { a } else { Group::WIDTH })
        && l.ctrl_align.is_power_of_two()
        && l.ctrl_align >= Group::WIDTH
        && l.ctrl_align >= a
    {
        Ok(())
    } else {
        Err("TableLayout::new: postcondition")
    }
}

pub fn pre_move_next(pos: usize, stride: usize, mask: usize) -> bool {
    // a table's allocation (buckets + WIDTH control bytes at least) fits isize::MAX
    // (calculate_layout_for's contract), hence the bound on mask
    mask < (1usize << 62) && (mask + 1).is_power_of_two() && pos <= mask && stride <= mask
}
pub fn chk_move_next(pos: usize, stride: usize, mask: usize) -> Chk {
    if !pre_move_next(pos, stride, mask) {
        return Ok(());
    }
    let mut p = ProbeSeq { pos, stride };
    p.move_next(mask);
    let st2 = stride as u128 + Group::WIDTH as u128;
    let pos2 = ((pos as u128 + st2) & mask as u128) as usize;
    if p.stride as u128 == st2 && p.pos == pos2 && p.pos <= mask {
        Ok(())
    } else {
        Err("ProbeSeq::move_next: postcondition")
    }
}

pub fn chk_h1(hash: u64) -> Chk {
    if h1(hash) == hash as usize {
        Ok(())
    } else {
        Err("h1: postcondition")
    }
}

/// C17 (bounded part): the probe sequence of a table with `groups` groups visits `groups`
/// pairwise-different group offsets in its first `groups` steps, from any start position.
pub fn chk_probe_cycle(mask: usize, start: usize) -> Chk {
    if !(mask != usize::MAX && (mask + 1).is_power_of_two() && mask + 1 >= Group::WIDTH) {
        return Ok(());
    }
    let groups = (mask + 1) / Group::WIDTH;
    let mut p = ProbeSeq { pos: start & mask, stride: 0 };
    let base = p.pos;
    let mut seen: u64 = 0; // groups <= 64 in every harness
    let mut k = 0;
    while k < groups {
        // distance from the start in units of groups
        let d = (p.pos.wrapping_sub(base) & mask) / Group::WIDTH;
        if (p.pos.wrapping_sub(base) & mask) % Group::WIDTH != 0 {
            return Err("probe_cycle: position not a whole number of groups from start");
        }
        if seen >> d & 1 == 1 {
            return Err("probe_cycle: group visited twice");
        }
        seen |= 1 << d;
        if k + 1 < groups {
            p.move_next(mask);
        }
        k += 1;
    }
    Ok(())
}

// ----- Tag -----
pub fn chk_tag(hash: u64, b: u8) -> Chk {
    let t = Tag::full(hash);
    if tag_u8(t) != spec_tag(hash) || tag_u8(t) >= 0x80 {
        return Err("Tag::full: not the top 7 bits");
    }
    if !t.is_full() || t.is_special() {
        return Err("Tag::full: result not classified full");
    }
    let x = tag_of(b);
    if x.is_full() != (b < 0x80) {
        return Err("Tag::is_full");
    }
    if x.is_special() != (b >= 0x80) {
        return Err("Tag::is_special");
    }
    if b == EMPTY && !x.special_is_empty() {
        return Err("Tag::special_is_empty(EMPTY)");
    }
    if b == DELETED && x.special_is_empty() {
        return Err("Tag::special_is_empty(DELETED)");
    }
    if tag_u8(Tag::EMPTY) != EMPTY || tag_u8(Tag::DELETED) != DELETED {
        return Err("Tag constants");
    }
    Ok(())
}

// ----- Group primitives against their byte-by-byte definition (C18) -----

#[repr(C, align(64))]
#[derive(Clone, Copy)]
pub struct Aligned<const M: usize>(pub [u8; M]);

#[inline]
pub fn bm_bit<M: Copy + Into<u64>>(m: M, i: usize) -> bool {
    (m.into() >> (i * STRIDE + (STRIDE - 1))) & 1 == 1
}

/// `bytes` must hold at least WIDTH + off bytes; `off` selects an unaligned load.
pub fn chk_group(bytes: &Aligned<32>, off: usize, tagb: u8) -> Chk {
    if off > 16 {
        return Ok(());
    }
    let w = Group::WIDTH;
    let p: *const Tag = bytes.0.as_ptr().cast();
    let g = unsafe { Group::load(p.add(off)) };
    let ga = unsafe { Group::load_aligned(p) };
    let tag = tag_of(tagb & 0x7f);
    let tb = tagb & 0x7f;

    // load / store round trip (aligned)
    let mut out = Aligned::<32>([0u8; 32]);
    unsafe { ga.store_aligned(out.0.as_mut_ptr().cast()) };
    let mut i = 0;
    while i < w {
        if out.0[i] != bytes.0[i] {
            return Err("Group::load_aligned/store_aligned round trip");
        }
        i += 1;
    }

    let m_tag = g.match_tag(tag).0;
    let m_empty = g.match_empty().0;
    let m_eod = g.match_empty_or_deleted().0;
    let m_full = g.match_full().0;
    let conv = g.convert_special_to_empty_and_full_to_deleted();
    let mut cv = Aligned::<32>([0u8; 32]);
    unsafe { conv.store_aligned(cv.0.as_mut_ptr().cast()) };

    let mut seen_true_match = false;
    let mut i = 0;
    while i < w {
        let b = bytes.0[off + i];
        if bm_bit(m_empty, i) != (b == EMPTY) {
            return Err("Group::match_empty differs from bytewise definition");
        }
        if bm_bit(m_eod, i) != (b >= 0x80) {
            return Err("Group::match_empty_or_deleted differs from bytewise definition");
        }
        if bm_bit(m_full, i) != (b < 0x80) {
            return Err("Group::match_full differs from bytewise definition");
        }
        let want = if b >= 0x80 { EMPTY } else { DELETED };
        if cv.0[i] != want {
            return Err("Group::convert_special_to_empty_and_full_to_deleted differs from bytewise definition");
        }
        let hit = bm_bit(m_tag, i);
        if b == tb {
            if !hit {
                return Err("Group::match_tag misses a true match");
            }
            seen_true_match = true;
        } else if hit {
            // only the portable scanner may report a false positive, and only a byte that
            // differs from the tag in its lowest bit, above a true match
            if Group::WIDTH == 16 || (b ^ tb) != 1 || !seen_true_match {
                return Err("Group::match_tag reports a byte that is not the tag");
            }
        }
        i += 1;
    }
    // no stray bits outside the lane-marker positions
    let lanes: u64 = if STRIDE == 1 { 0xffff } else { 0x8080_8080_8080_8080 };
    let all = (m_tag as u64) | (m_empty as u64) | (m_eod as u64) | (m_full as u64);
    if all & !lanes != 0 {
        return Err("Group::match_*: stray bits in mask");
    }
    Ok(())
}

/// BitMask queries and iteration on every mask a scanner can produce
/// (match_full over all groups produces every lane pattern).
pub fn chk_bitmask(bytes: &Aligned<32>) -> Chk {
    let w = Group::WIDTH;
    let g = unsafe { Group::load_aligned(bytes.0.as_ptr().cast()) };
    let m = g.match_full();
    // abstract view: set of lanes
    let mut lanes = [false; 16];
    let mut n = 0usize;
    let mut first = usize::MAX;
    let mut last = usize::MAX;
    let mut i = 0;
    while i < w {
        lanes[i] = bytes.0[i] < 0x80;
        if lanes[i] {
            n += 1;
            if first == usize::MAX {
                first = i;
            }
            last = i;
        }
        i += 1;
    }
    if m.any_bit_set() != (n != 0) {
        return Err("BitMask::any_bit_set");
    }
    match m.lowest_set_bit() {
        None => {
            if n != 0 {
                return Err("BitMask::lowest_set_bit: None on non-empty mask");
            }
        }
        Some(b) => {
            if n == 0 || b != first {
                return Err("BitMask::lowest_set_bit: wrong lane");
            }
        }
    }
    let tz = m.trailing_zeros();
    if tz != (if n == 0 { w } else { first }) {
        return Err("BitMask::trailing_zeros");
    }
    let lz = m.leading_zeros();
    if lz != (if n == 0 { w } else { w - 1 - last }) {
        return Err("BitMask::leading_zeros");
    }
    let inv = m.invert();
    let mut i = 0;
    while i < w {
        if bm_bit(inv.0, i) == lanes[i] {
            return Err("BitMask::invert");
        }
        i += 1;
    }
    // iteration: ascending, each set lane once, then None forever
    let mut it = m.into_iter();
    let mut i = 0;
    while i < w {
        if lanes[i] {
            match it.next() {
                Some(b) if b == i => {}
                _ => return Err("BitMaskIter::next: wrong lane order"),
            }
        }
        i += 1;
    }
    if it.next().is_some() || it.next().is_some() {
        return Err("BitMaskIter::next: yields after exhaustion");
    }
    Ok(())
}

pub fn chk_static_empty() -> Chk {
    let s = Group::static_empty();
    if (s.as_ptr() as usize) % Group::WIDTH != 0 {
        return Err("Group::static_empty: not group aligned");
    }
    let mut i = 0;
    while i < Group::WIDTH {
        if tag_u8(s[i]) != EMPTY {
            return Err("Group::static_empty: not all EMPTY");
        }
        i += 1;
    }
    Ok(())
}

// ----- serde size hint (C20) -----
#[cfg(feature = "serde")]
pub fn chk_cautious(hint: Option<usize>) -> Chk {
    let r = crate::external_trait_impls::serde_verif::cautious(hint);
    let want = match hint {
        None => 0,
        Some(h) => {
            if h < 4096 {
                h
            } else {
                4096
            }
        }
    };
    if r == want && r <= 4096 {
        Ok(())
    } else {
        Err("serde size_hint::cautious: not min(hint, 4096)")
    }
}

// ---------------------------------------------------------------------------
// Kani: function contracts (modular route) + complete loop-free harnesses
// ---------------------------------------------------------------------------
#[cfg(kani)]
mod pure_k {
    use super::*;

    // --- contract carriers: one-line forwarders to the real functions ---
    #[kani::requires(pre_capacity_to_buckets(cap))]
    #[kani::ensures(|r| post_capacity_to_buckets(cap, size, r))]
    pub fn capacity_to_buckets_c(cap: usize, size: usize, align: usize) -> Option<usize> {
        capacity_to_buckets(cap, TableLayout { size, ctrl_align: align })
    }
    #[kani::proof_for_contract(capacity_to_buckets_c)]
    fn kc_capacity_to_buckets() {
        capacity_to_buckets_c(kani::any(), kani::any(), kani::any());
    }

    #[kani::requires(pre_bucket_mask_to_capacity(mask))]
    #[kani::ensures(|r| post_bucket_mask_to_capacity(mask, *r))]
    pub fn bucket_mask_to_capacity_c(mask: usize) -> usize {
        bucket_mask_to_capacity(mask)
    }
    #[kani::proof_for_contract(bucket_mask_to_capacity_c)]
    fn kc_bucket_mask_to_capacity() {
        bucket_mask_to_capacity_c(kani::any());
    }

    #[kani::requires(pre_calculate_layout_for(size, align, buckets))]
    #[kani::ensures(|r| post_calculate_layout_for(size, align, buckets, *r))]
    pub fn calculate_layout_for_c(
        size: usize,
        align: usize,
        buckets: usize,
    ) -> Option<(usize, usize, usize)> {
        TableLayout { size, ctrl_align: align }
            .calculate_layout_for(buckets)
            .map(|(l, off)| (l.size(), l.align(), off))
    }
    #[kani::proof_for_contract(calculate_layout_for_c)]
    fn kc_calculate_layout_for() {
        calculate_layout_for_c(kani::any(), kani::any(), kani::any());
    }

    // --- the same contracts as check functions (what the replay binary runs) ---
    fn ok(r: Chk) {
        assert!(r.is_ok());
    }
    #[kani::proof]
    fn kp_capacity_to_buckets() {
        let cap: usize = kani::any();
        kani::cover!(cap >= 15 && cap.checked_mul(8).is_some());
        ok(chk_capacity_to_buckets(cap, kani::any(), kani::any()));
    }
    #[kani::proof]
    fn kp_bucket_mask_to_capacity() {
        ok(chk_bucket_mask_to_capacity(kani::any()));
    }
    #[kani::proof]
    fn kp_bucket_mask_to_capacity_monotone() {
        ok(chk_bucket_mask_to_capacity_monotone(kani::any(), kani::any()));
    }
    #[kani::proof]
    fn kp_calculate_layout_for() {
        let (s, a, b): (usize, usize, usize) = (kani::any(), kani::any(), kani::any());
        ok(chk_calculate_layout_for(s, a, b));
    }
    #[repr(align(64))]
    struct A64([u8; 64]);
    #[kani::proof]
    fn kp_table_layout_new() {
        ok(chk_table_layout_new::<()>());
        ok(chk_table_layout_new::<u8>());
        ok(chk_table_layout_new::<u16>());
        ok(chk_table_layout_new::<u64>());
        ok(chk_table_layout_new::<[u64; 3]>());
        ok(chk_table_layout_new::<[u8; 200]>());
        ok(chk_table_layout_new::<A64>());
        ok(chk_table_layout_new::<(u64, u8)>());
    }
    #[kani::proof]
    fn kp_move_next() {
        ok(chk_move_next(kani::any(), kani::any(), kani::any()));
    }
    #[kani::proof]
    fn kp_h1() {
        ok(chk_h1(kani::any()));
    }
    #[kani::proof]
    #[kani::unwind(66)]
    fn kb_probe_cycle() {
        // bounded: tables of 1..=64 groups, every start position
        let g: u32 = kani::any();
        kani::assume(g <= 6);
        let buckets = (Group::WIDTH << g) as usize;
        ok(chk_probe_cycle(buckets - 1, kani::any()));
    }
    #[kani::proof]
    fn kp_tag() {
        ok(chk_tag(kani::any(), kani::any()));
    }
    #[kani::proof]
    #[kani::unwind(18)]
    fn kp_group() {
        let bytes = Aligned::<32>(kani::any());
        let off: usize = kani::any();
        kani::assume(off <= 16);
        ok(chk_group(&bytes, off, kani::any()));
    }
    #[kani::proof]
    #[kani::unwind(18)]
    fn kp_bitmask() {
        let bytes = Aligned::<32>(kani::any());
        ok(chk_bitmask(&bytes));
    }
    #[kani::proof]
    #[kani::unwind(18)]
    fn kp_static_empty() {
        ok(chk_static_empty());
    }
    #[cfg(feature = "serde")]
    #[kani::proof]
    fn kp_cautious() {
        ok(chk_cautious(kani::any()));
    }
}
