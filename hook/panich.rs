// ---------------------------------------------------------------------------
// C04: the k-th invocation of a user callback (Hash, Eq, Clone, Drop, predicate / entry closure,
// Into, extend iterator) panics inside an operation.  The native engine really unwinds
// (catch_unwind); afterwards: the collection is valid (wf), len() equals what it yields and
// finds, no element was dropped twice, every element is still present or dropped exactly once
// (leaks only when the panic came out of a destructor), and a hasher panic while growing into a
// new allocation leaves the contents unchanged.
// C05: callbacks answer arbitrarily (unlawful Hash / Eq): validity, exactly-once drops, len.
// ---------------------------------------------------------------------------

fn lmap_ids(map: &LMap) -> Vec<u64> {
    let mut v: Vec<u64> = map.iter().map(|(k, _)| k.id).collect();
    v.sort();
    v
}

/// validity after unwinding: wf, len == yielded == found
fn valid_after_unwind(map: &LMap) -> Chk {
    let d = read_dyn(&map.table)?;
    let n = map.iter().count();
    ensure!(map.len() == n && d.ents().len() == n, "after unwinding len() equals the number of elements the collection yields");
    ensure!(d.reach_all(), "after unwinding every remaining element is found by lookup (reachable)");
    Ok(())
}

struct PanicIter {
    items: Vec<(u64, u64)>,
    pos: usize,
    fail_at: usize,
}
impl Iterator for PanicIter {
    type Item = (D, D);
    fn next(&mut self) -> Option<(D, D)> {
        if self.pos == self.fail_at {
            std::panic::panic_any(InjectedPanic);
        }
        if self.pos >= self.items.len() {
            return None;
        }
        let (a, b) = self.items[self.pos];
        self.pos += 1;
        Some((D::new(a), D::new(b)))
    }
}

pub fn ob_panic<S: Src, const N: usize>(s: &mut S) -> Chk {
    ledger_reset();
    alloc_reset();
    disarm_fault();
    let class;
    {
        let (mut map, m) = match start_lmap::<S, N>(s) {
            Some(x) => x,
            None => return Ok(()),
        };
        let before = lmap_ids(&map);
        let id = draw_key(s, &m);
        let k = s.below(2 * N + 2) as i64;
        let op = s.below(16);
        let items0 = map.len();
        let gl0 = map.table.table.growth_left;
        let cap_full = map.table.buckets() - 1; // only to decide in-place vs. grow below
        let full_cap = if map.table.buckets() == 1 { 0 } else { spec_cap_of(cap_full) };
        class = match op {
            0 | 1 | 2 | 3 => CB_HASH,
            4 | 5 => CB_EQ,
            6 | 7 => CB_CLONE,
            8 | 9 => CB_DROP,
            10 | 11 => CB_PRED,
            12 => CB_INTO,
            _ => 0,
        };
        let mut hole: Option<u64> = None; // an element handed to a panicking closure may be gone
        let mut grow_path = false;
        let mut aux_tgt: Option<LMap> = None;
        let r = {
            let mapr = &mut map;
            let holer = &mut hole;
            let tgt = &mut aux_tgt;
            let sref = &mut *s;
            let mask = sref.u64();
            let add = sref.below(3 * N + 2);
            let sh = sref.below(2 * N);
            if op == 1 {
                grow_path = add > gl0 && items0.checked_add(add).map_or(false, |n| n > full_cap / 2);
            }
            if op == 0 {
                grow_path = gl0 == 0 && items0 + 1 > full_cap / 2;
            }
            let fresh_pairs: Vec<(u64, u64)> = (0..5).map(|j| (id ^ ((j as u64) << 24), j as u64)).collect();
            arm_fault(class, k);
            let r = std::panic::catch_unwind(std::panic::AssertUnwindSafe(move || match op {
                0 => {
                    mapr.insert(D::new(id), D::new(1));
                }
                1 => mapr.reserve(add),
                2 => mapr.shrink_to(sh),
                3 => {
                    let _ = mapr.get(&D::new(id));
                    let _ = mapr.remove(&D::new(id));
                }
                4 => {
                    let _ = mapr.insert(D::new(id), D::new(2));
                }
                5 => {
                    let _ = mapr.remove(&D::new(id));
                }
                6 => {
                    let c = mapr.clone();
                    drop(c);
                }
                7 => {
                    let mut t: LMap = HashMap::with_capacity_and_hasher_in(sh, IdBuild::default(), LedgerAlloc);
                    for j in 0..(sh as u64 % 7) {
                        t.insert(D::new(0xEEEE_0000 + j), D::new(j));
                    }
                    *tgt = Some(t);
                    tgt.as_mut().unwrap().clone_from(mapr);
                }
                8 => mapr.clear(),
                9 => {
                    let _ = mapr.insert(D::new(id), D::new(3)); // drops the old value
                    mapr.retain(|kk, _| (mask >> (kk.id & 63)) & 1 == 1);
                }
                10 => {
                    mapr.retain(|kk, _| {
                        callback_point(CB_PRED);
                        (mask >> (kk.id & 63)) & 1 == 1
                    });
                }
                11 => {
                    let mut e = mapr.extract_if(|kk, _| {
                        callback_point(CB_PRED);
                        (mask >> (kk.id & 63)) & 1 == 1
                    });
                    while let Some(x) = e.next() {
                        drop(x);
                    }
                }
                12 => {
                    // entry closures: the element is removed from the table before the closure runs
                    match mapr.entry(D::new(id)) {
                        Entry::Occupied(o) => {
                            *holer = Some(id);
                            let _ = o.replace_entry_with(|_, v| {
                                callback_point(CB_INTO);
                                Some(v)
                            });
                            *holer = None;
                        }
                        Entry::Vacant(v) => {
                            let _ = Entry::Vacant(v).or_insert_with(|| {
                                callback_point(CB_INTO);
                                D::new(4)
                            });
                        }
                    }
                }
                13 => {
                    let it = PanicIter { items: fresh_pairs, pos: 0, fail_at: (k as usize) % 6 };
                    mapr.extend(it);
                }
                14 => {
                    let _ = mapr.entry(D::new(id)).and_replace_entry_with(|_, _v| {
                        std::panic::panic_any(InjectedPanic);
                    });
                }
                _ => {
                    let _ = mapr.try_insert(D::new(id), D::new(5));
                }
            }));
            disarm_fault();
            r
        };
        let panicked = r.is_err();
        sub!(valid_after_unwind(&map));
        let after = lmap_ids(&map);
        if !panicked {
            reach!(true, "operation completed without the fault firing");
        } else {
            // every element that was in it is either still present or has been dropped (exactly once:
            // the ledger below); nothing appears from nowhere except what the operation itself inserts
            if class == CB_HASH && grow_path && (op == 0 || op == 1) {
                ensure!(after == before, "a hasher panic while the table is being grown into a new allocation leaves the contents unchanged");
            }
            if op == 3 || op == 5 || op == 10 || op == 11 || op == 14 || op == 12 {
                for x in after.iter() {
                    ensure!(before.contains(x) || *x == id, "after unwinding no foreign element is present");
                }
            }
            if class == CB_EQ || op == 3 {
                // lookups / find-phase panics must not change anything
                ensure!(after == before || op == 4, "a panic during lookup leaves the contents unchanged");
            }
        }
        let _ = hole;
        // use it normally afterwards
        map.insert(D::new(0x1234_5678), D::new(9));
        ensure!(map.get(&D::new(0x1234_5678)).map(|v| v.id) == Some(9), "the collection is usable after unwinding");
        sub!(valid_after_unwind(&map));
        if let Some(t) = aux_tgt.as_ref() {
            sub!(valid_after_unwind(t));
        }
        drop(aux_tgt);
    }
    ensure!(ledger_double_drops() == 0, "no element is dropped twice, with or without a panic");
    ensure!(alloc_error().is_none(), "no block is freed twice or with a wrong layout");
    if class != CB_DROP {
        ensure!(ledger_live() == 0, "no element is leaked unless the panic came out of a destructor");
        ensure!(alloc_live_blocks() == 0, "no block is leaked unless the panic came out of a destructor");
    }
    Ok(())
}

/// C04 for element types WITHOUT drop glue (the rehash_in_place guard must not rely on drop glue)
pub fn ob_panic_nodrop<S: Src, const N: usize>(s: &mut S) -> Chk {
    disarm_fault();
    let st = match draw_state::<S, N>(s, true) {
        Some(st) => st,
        None => return Ok(()),
    };
    let mut t: HashTable<u64> = HashTable { raw: build(&st) };
    let k = s.below(N + 2) as i64;
    let add = s.below(2 * N + 2);
    let op = s.below(3);
    let v = s.u64();
    arm_fault(CB_HASH, k);
    let r = {
        let tr = &mut t;
        std::panic::catch_unwind(std::panic::AssertUnwindSafe(move || {
            let h = |x: &u64| {
                callback_point(CB_HASH);
                hash_of(*x)
            };
            match op {
                0 => tr.reserve(add, h),
                1 => {
                    tr.insert_unique(hash_of(v), v, h);
                }
                _ => tr.shrink_to(add / 2, h),
            }
        }))
    };
    disarm_fault();
    let _ = r;
    let d = read_dyn(&t.raw)?;
    ensure!(t.len() == t.iter().count() && t.len() == d.ents().len(), "after a hasher panic len() equals the number of elements yielded (no drop glue)");
    ensure!(d.reach_all(), "after a hasher panic every remaining element is reachable (no drop glue)");
    for x in t.iter() {
        ensure!(st.count(*x) > 0 || *x == v, "after a hasher panic only original elements remain");
    }
    Ok(())
}

/// C05: Hash / Eq answer arbitrarily on every call.  No UB, termination, valid table,
/// exactly-once drops, len() == number yielded / drained.
pub struct Liar {
    pub d: D,
}
std::thread_local! {
    static LIAR_RNG: RefCell<u64> = RefCell::new(0x1234_5678_9ABC_DEF1);
    static LIAR_MODE: RefCell<u8> = RefCell::new(0);
}
fn liar_next() -> u64 {
    LIAR_RNG.with(|r| {
        let mut x = r.borrow_mut();
        *x ^= *x << 13;
        *x ^= *x >> 7;
        *x ^= *x << 17;
        *x
    })
}
impl PartialEq for Liar {
    fn eq(&self, o: &Liar) -> bool {
        match LIAR_MODE.with(|m| *m.borrow()) {
            0 => liar_next() & 1 == 0,
            1 => true,
            2 => false,
            _ => self.d.id == o.d.id && liar_next() & 3 != 0,
        }
    }
}
impl Eq for Liar {}
impl core::hash::Hash for Liar {
    fn hash<H: core::hash::Hasher>(&self, h: &mut H) {
        match LIAR_MODE.with(|m| *m.borrow()) {
            1 => h.write_u64(0),
            2 => h.write_u64(u64::MAX),
            _ => h.write_u64(liar_next()),
        }
    }
}
#[derive(Clone, Copy, Default)]
pub struct RawBuild;
pub struct RawHasher(u64);
impl core::hash::BuildHasher for RawBuild {
    type Hasher = RawHasher;
    fn build_hasher(&self) -> RawHasher {
        RawHasher(0)
    }
}
impl core::hash::Hasher for RawHasher {
    fn write(&mut self, _b: &[u8]) {}
    fn write_u64(&mut self, x: u64) {
        self.0 = x;
    }
    fn finish(&self) -> u64 {
        self.0
    }
}

pub fn ob_unlawful<S: Src, const N: usize>(s: &mut S) -> Chk {
    ledger_reset();
    alloc_reset();
    disarm_fault();
    LIAR_RNG.with(|r| *r.borrow_mut() = s.u64() | 1);
    LIAR_MODE.with(|m| *m.borrow_mut() = s.below(4) as u8);
    {
        let mut map: HashMap<Liar, D, RawBuild, LedgerAlloc> = HashMap::with_capacity_and_hasher_in(s.below(N), RawBuild, LedgerAlloc);
        let mut set: HashSet<Liar, RawBuild, LedgerAlloc> = HashSet::with_hasher_in(RawBuild, LedgerAlloc);
        let ops = s.below(6 * N + 1);
        for _ in 0..ops {
            let id = s.below(2 * N) as u64;
            match s.below(12) {
                0 | 1 | 2 | 3 => {
                    map.insert(Liar { d: D::new(id) }, D::new(id));
                }
                4 | 5 => {
                    map.remove(&Liar { d: D::new(id) });
                }
                6 => {
                    let _ = map.get(&Liar { d: D::new(id) });
                    let _ = map.contains_key(&Liar { d: D::new(id) });
                }
                7 => {
                    *map.entry(Liar { d: D::new(id) }).or_insert_with(|| D::new(0)) = D::new(1);
                }
                8 => map.reserve(s.below(N)),
                9 => map.shrink_to_fit(),
                10 => {
                    set.insert(Liar { d: D::new(id) });
                    set.replace(Liar { d: D::new(id) });
                }
                _ => {
                    let a = Liar { d: D::new(id) };
                    let b = Liar { d: D::new(id + 1) };
                    let r = std::panic::catch_unwind(std::panic::AssertUnwindSafe(|| {
                        let res = map.get_many_mut([&a, &b]);
                        if let [Some(x), Some(y)] = res {
                            // must be two different entries
                            (x as *mut D as usize) != (y as *mut D as usize)
                        } else {
                            true
                        }
                    }));
                    if let Ok(distinct) = r {
                        ensure!(distinct, "get_many_mut never hands out two references to one entry, even with a broken Eq");
                    }
                }
            }
            let d = read_dyn_unkeyed(&map.table)?;
            ensure!(map.len() == d, "with broken Hash/Eq the table stays well-formed and len() equals the number of stored elements");
        }
        let n = map.iter().count();
        ensure!(n == map.len(), "with broken Hash/Eq len() equals the number of elements yielded");
        let mut drained = 0;
        for x in map.drain() {
            drop(x);
            drained += 1;
        }
        ensure!(drained == n && map.is_empty(), "with broken Hash/Eq drain yields len() elements");
        let sn = set.iter().count();
        ensure!(sn == set.len(), "with broken Hash/Eq a set's len() equals the number of elements yielded");
    }
    ledgers_clean()
}

/// wf without the tag/hash relation (element hashes are meaningless under a lying Hash)
pub fn read_dyn_unkeyed<T, A: Allocator>(t: &RawTable<T, A>) -> Result<usize, &'static str> {
    let n = t.table.bucket_mask.wrapping_add(1);
    ensure!(n != 0 && n.is_power_of_two(), "wf: bucket count is a power of two");
    if n == 1 {
        ensure!(t.table.items == 0 && t.table.growth_left == 0, "wf(singleton): counts are zero");
        return Ok(0);
    }
    let w = Group::WIDTH;
    let (mut full, mut del) = (0, 0);
    unsafe {
        let c = t.table.ctrl.as_ptr();
        for i in 0..n {
            let b = *c.add(i);
            if b == DELETED {
                del += 1;
            } else if b != EMPTY {
                ensure!(b < 0x80, "wf: control byte is EMPTY, DELETED or a 7-bit tag");
                full += 1;
            }
        }
        for j in n..n + w {
            let want = if n >= w { *c.add(j - n) } else if j < w { EMPTY } else { *c.add(j - w) };
            ensure!(*c.add(j) == want, "wf: mirrored / padding control bytes");
        }
    }
    let cap = spec_cap_of(n - 1);
    ensure!(t.table.items == full, "wf: items == number of full buckets");
    ensure!(full + del <= cap && t.table.growth_left == cap - full - del, "wf: growth_left + items + tombstones == capacity");
    Ok(full)
}
