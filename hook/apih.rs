// ---------------------------------------------------------------------------
// Obligations for the public HashMap API (C01, C14, C08, C10, C11, C15):
//   {Inv(st) && distinct keys}  one public call  {Inv && contents == reference && result == reference}
// from an arbitrary Inv state (native engine: sampled states with 4..64 buckets and the
// unallocated singleton).  The reference is an association list (Vec of (id, value, stamp)).
// ---------------------------------------------------------------------------
use crate::hash_map::{Entry, EntryRef, HashMap};

pub type Map = HashMap<Key, u64, IdBuild>;
pub type Ents = Vec<(u64, u64, u64)>;

pub fn mk_map<const N: usize>(st: &St<N>) -> Map {
    HashMap { hash_builder: IdBuild { seed: 1 }, table: build_t::<(Key, u64), N>(st) }
}

/// Inv state with pairwise different ids (a map holds each key once); `None` = unallocated map.
pub fn draw_map_state<S: Src, const N: usize>(s: &mut S) -> Option<Option<St<N>>> {
    if s.native() && s.below(10) == 0 {
        return Some(None);
    }
    let mut st = draw_state::<S, N>(s, true)?;
    if s.native() {
        // make ids distinct without changing any hash (bits 8..56 are ignored by hash_of)
        for_upto!(i, N, {
            if st.kind[i] == K_FULL && st.count(st.val[i]) > 1 {
                st.val[i] ^= ((i as u64) + 1) << 12;
            }
        });
    }
    if !s.assume(st.distinct()) {
        return None;
    }
    Some(Some(st))
}

fn start_map<S: Src, const N: usize>(s: &mut S) -> Option<(Map, Ents)> {
    match draw_map_state::<S, N>(s)? {
        None => Some((HashMap::with_hasher(IdBuild { seed: 2 }), Vec::new())),
        Some(st) => Some((mk_map(&st), ents_of(&st))),
    }
}

/// a key that is often present, often colliding with a present key, sometimes fresh
fn draw_key<S: Src>(s: &mut S, m: &Ents) -> u64 {
    if !m.is_empty() {
        match s.below(4) {
            0 | 1 => return m[s.below(m.len())].0,
            2 => return m[s.below(m.len())].0 ^ ((s.below(200) as u64 + 1) << 20), // same hash, other key
            _ => {}
        }
    }
    s.u64()
}
fn model_get(m: &Ents, id: u64) -> Option<usize> {
    m.iter().position(|e| e.0 == id)
}
fn pk(id: u64) -> Key {
    Key { id, stamp: STAMP_PROBE }
}

/// lookups: get / get_mut / contains_key / get_key_value / get_key_value_mut / Index, by key and
/// through an equivalent borrowed form; the map is not changed (except the write through get_mut).
pub fn ob_map_lookup<S: Src, const N: usize>(s: &mut S) -> Chk {
    let (mut map, mut m) = match start_map::<S, N>(s) {
        Some(x) => x,
        None => return Ok(()),
    };
    let id = draw_key(s, &m);
    let want = model_get(&m, id);
    let q = QKey(id);
    match s.below(7) {
        0 => {
            ensure!(map.get(&pk(id)).copied() == want.map(|i| m[i].1), "HashMap::get returns the reference's value");
            ensure!(map.get(&q).copied() == want.map(|i| m[i].1), "HashMap::get through an equivalent borrowed key finds the same entry");
        }
        1 => {
            ensure!(map.contains_key(&pk(id)) == want.is_some(), "HashMap::contains_key");
            ensure!(map.contains_key(&q) == want.is_some(), "HashMap::contains_key through a borrowed form");
        }
        2 => {
            let r = map.get_key_value(&q).map(|(k, v)| (k.id, *v, k.stamp));
            ensure!(r == want.map(|i| m[i]), "HashMap::get_key_value returns the stored key and value");
        }
        3 => {
            let nv = s.u64();
            match map.get_mut(&pk(id)) {
                Some(v) => {
                    ensure!(want.is_some() && *v == m[want.unwrap()].1, "HashMap::get_mut returns the reference's value");
                    *v = nv;
                    m[want.unwrap()].1 = nv;
                }
                None => ensure!(want.is_none(), "HashMap::get_mut: None only for absent keys"),
            }
        }
        4 => {
            let nv = s.u64();
            match map.get_key_value_mut(&q) {
                Some((k, v)) => {
                    ensure!(want.is_some() && (k.id, *v, k.stamp) == m[want.unwrap()], "HashMap::get_key_value_mut returns the stored pair");
                    *v = nv;
                    m[want.unwrap()].1 = nv;
                }
                None => ensure!(want.is_none(), "HashMap::get_key_value_mut: None only for absent keys"),
            }
        }
        5 => {
            if let Some(i) = want {
                ensure!(map[&pk(id)] == m[i].1, "HashMap index returns the reference's value");
            }
        }
        _ => {
            ensure!(map.len() == m.len() && map.is_empty() == m.is_empty(), "HashMap::len / is_empty");
            ensure!(map.capacity() >= map.len(), "capacity() >= len()");
        }
    }
    check_table(&map.table, &m)
}

/// insert / try_insert / remove / remove_entry / insert_unique_unchecked
pub fn ob_map_update<S: Src, const N: usize>(s: &mut S) -> Chk {
    let (mut map, mut m) = match start_map::<S, N>(s) {
        Some(x) => x,
        None => return Ok(()),
    };
    let id = draw_key(s, &m);
    let want = model_get(&m, id);
    let nv = s.u64();
    let cap0 = map.capacity();
    let len0 = map.len();
    let size0 = map.allocation_size();
    match s.below(6) {
        0 | 1 => {
            let r = map.insert(pk(id), nv);
            match want {
                Some(i) => {
                    ensure!(r == Some(m[i].1), "HashMap::insert on a present key returns the old value");
                    m[i].1 = nv; // value replaced, originally stored key (stamp) kept
                }
                None => {
                    ensure!(r.is_none(), "HashMap::insert on an absent key returns None");
                    m.push((id, nv, STAMP_PROBE));
                    if cap0 > len0 {
                        ensure!(map.allocation_size() == size0 && map.capacity() >= cap0, "insert within capacity() - len() does not reallocate");
                    }
                }
            }
        }
        2 => {
            let r = map.try_insert(pk(id), nv);
            match want {
                Some(i) => match r {
                    Err(e) => {
                        ensure!(e.value == nv && *e.entry.get() == m[i].1 && e.entry.key().stamp == m[i].2, "HashMap::try_insert on a present key hands back the value and the occupied entry");
                    }
                    Ok(_) => ensure!(false, "HashMap::try_insert must fail on a present key"),
                },
                None => {
                    ensure!(matches!(r, Ok(v) if *v == nv), "HashMap::try_insert on an absent key inserts and returns the value");
                    m.push((id, nv, STAMP_PROBE));
                }
            }
        }
        3 => {
            let r = map.remove(&QKey(id));
            ensure!(r == want.map(|i| m[i].1), "HashMap::remove returns the removed value");
            if let Some(i) = want {
                m.remove(i);
            }
            ensure!(map.allocation_size() == size0, "remove keeps the allocation");
        }
        4 => {
            let r = map.remove_entry(&pk(id)).map(|(k, v)| (k.id, v, k.stamp));
            ensure!(r == want.map(|i| m[i]), "HashMap::remove_entry returns the stored key and value");
            if let Some(i) = want {
                m.remove(i);
            }
        }
        _ => {
            if want.is_none() {
                let (k, v) = unsafe { map.insert_unique_unchecked(pk(id), nv) };
                ensure!(k.id == id && *v == nv, "HashMap::insert_unique_unchecked returns the inserted pair");
                m.push((id, nv, STAMP_PROBE));
            }
        }
    }
    ensure!(map.len() == m.len(), "len() equals the number of stored pairs");
    check_table(&map.table, &m)
}

/// entry / entry_ref and every method chain of the Entry API (C14); includes full-load states.
pub fn ob_map_entry<S: Src, const N: usize>(s: &mut S) -> Chk {
    let (mut map, mut m) = match start_map::<S, N>(s) {
        Some(x) => x,
        None => return Ok(()),
    };
    let id = draw_key(s, &m);
    let want = model_get(&m, id);
    let nv = s.u64();
    let by_ref = s.bool();
    let ins_stamp = if by_ref { STAMP_FROM_Q } else { STAMP_PROBE };
    let q = QKey(id);
    let op = s.below(14);
    if !by_ref {
        let e = map.entry(pk(id));
        ensure!(matches!(e, Entry::Occupied(_)) == want.is_some(), "HashMap::entry is Occupied exactly when the key is present");
        ensure!(e.key().id == id, "Entry::key");
        match op {
            0 => {
                let v = e.or_insert(nv);
                match want {
                    Some(i) => ensure!(*v == m[i].1, "Entry::or_insert on a present key returns the stored value"),
                    None => {
                        ensure!(*v == nv, "Entry::or_insert on an absent key inserts");
                        m.push((id, nv, ins_stamp));
                    }
                }
            }
            1 => {
                let mut called = false;
                let v = *e.or_insert_with(|| {
                    called = true;
                    nv
                });
                ensure!(called == want.is_none(), "Entry::or_insert_with calls the closure exactly when vacant");
                match want {
                    Some(i) => ensure!(v == m[i].1, "Entry::or_insert_with keeps the stored value"),
                    None => m.push((id, nv, ins_stamp)),
                }
            }
            2 => {
                let v = *e.or_insert_with_key(|k| k.id ^ nv);
                match want {
                    Some(i) => ensure!(v == m[i].1, "Entry::or_insert_with_key keeps the stored value"),
                    None => m.push((id, id ^ nv, ins_stamp)),
                }
            }
            3 => {
                let v = *e.or_default();
                match want {
                    Some(i) => ensure!(v == m[i].1, "Entry::or_default keeps the stored value"),
                    None => m.push((id, 0, ins_stamp)),
                }
            }
            4 => {
                let v = *e.and_modify(|v| *v = v.wrapping_add(1)).or_insert(nv);
                match want {
                    Some(i) => {
                        m[i].1 = m[i].1.wrapping_add(1);
                        ensure!(v == m[i].1, "Entry::and_modify modifies the stored value");
                    }
                    None => m.push((id, nv, ins_stamp)),
                }
            }
            5 => {
                let o = e.insert(nv);
                ensure!(*o.get() == nv && o.key().id == id, "Entry::insert returns the occupied entry holding the value");
                match want {
                    Some(i) => m[i].1 = nv,
                    None => m.push((id, nv, ins_stamp)),
                }
            }
            6 => {
                let keep = s.bool();
                let e2 = e.and_replace_entry_with(|k, v| if keep { Some(v ^ k.id) } else { None });
                match want {
                    Some(i) => {
                        ensure!(matches!(e2, Entry::Occupied(_)) == keep, "Entry::and_replace_entry_with: Occupied iff the closure returned Some");
                        if keep {
                            m[i].1 ^= id;
                        } else {
                            m.remove(i);
                        }
                    }
                    None => ensure!(matches!(e2, Entry::Vacant(_)), "Entry::and_replace_entry_with leaves a vacant entry vacant"),
                }
            }
            12 | 13 => {
                // chain of length 3: insert (-> occupied) . replace_entry_with(None) (-> vacant) . insert / or_insert
                let o = e.insert(nv);
                let e2 = o.replace_entry_with(|_, _| None);
                ensure!(matches!(e2, Entry::Vacant(_)), "replace_entry_with(None) hands back a vacant entry");
                let nv2 = nv ^ 0x5A5A;
                let kept_stamp = match want {
                    Some(i) => m[i].2,
                    None => ins_stamp,
                };
                if op == 12 {
                    let v = *e2.or_insert(nv2);
                    ensure!(v == nv2, "re-insertion through the vacant entry returned by replace_entry_with stores the value");
                } else if let Entry::Vacant(v) = e2 {
                    let o2 = v.insert_entry(nv2);
                    ensure!(*o2.get() == nv2, "insert_entry through the vacant entry returned by replace_entry_with");
                }
                match want {
                    Some(i) => m[i] = (id, nv2, kept_stamp),
                    None => m.push((id, nv2, kept_stamp)),
                }
            }
            _ => match e {
                Entry::Occupied(mut o) => {
                    let i = want.unwrap();
                    ensure!(*o.get() == m[i].1 && o.key().stamp == m[i].2, "OccupiedEntry::get / key see the stored pair");
                    match op {
                        7 => {
                            ensure!(o.insert(nv) == m[i].1, "OccupiedEntry::insert returns the old value");
                            m[i].1 = nv;
                        }
                        8 => {
                            ensure!(o.remove() == m[i].1, "OccupiedEntry::remove returns the value");
                            m.remove(i);
                        }
                        9 => {
                            let (k, v) = o.remove_entry();
                            ensure!((k.id, v, k.stamp) == m[i], "OccupiedEntry::remove_entry returns the stored pair");
                            m.remove(i);
                        }
                        10 => {
                            let keep = s.bool();
                            let e2 = o.replace_entry_with(|k, v| {
                                if keep {
                                    Some(v.wrapping_add(k.id))
                                } else {
                                    None
                                }
                            });
                            ensure!(matches!(e2, Entry::Occupied(_)) == keep, "OccupiedEntry::replace_entry_with: Occupied iff Some");
                            if keep {
                                m[i].1 = m[i].1.wrapping_add(id);
                            } else {
                                m.remove(i);
                            }
                        }
                        _ => {
                            *o.get_mut() = nv;
                            *o.into_mut() ^= 1;
                            m[i].1 = nv ^ 1;
                        }
                    }
                }
                Entry::Vacant(v) => match op {
                    7 => {
                        ensure!(*v.insert(nv) == nv, "VacantEntry::insert returns the inserted value");
                        m.push((id, nv, ins_stamp));
                    }
                    8 => {
                        let o = v.insert_entry(nv);
                        ensure!(*o.get() == nv, "VacantEntry::insert_entry returns the occupied entry");
                        m.push((id, nv, ins_stamp));
                    }
                    9 => {
                        ensure!(v.into_key().id == id, "VacantEntry::into_key");
                    }
                    _ => {
                        ensure!(v.key().id == id, "VacantEntry::key");
                        drop(v); // a vacant entry dropped unused changes nothing
                    }
                },
            },
        }
    } else {
        let e = map.entry_ref(&q);
        ensure!(matches!(e, EntryRef::Occupied(_)) == want.is_some(), "HashMap::entry_ref is Occupied exactly when the key is present");
        match op {
            12 | 13 => {
                let o = e.insert(nv);
                let e2 = o.replace_entry_with(|_, _| None);
                ensure!(matches!(e2, Entry::Vacant(_)), "EntryRef occupied replace_entry_with(None) hands back a vacant entry");
                let nv2 = nv ^ 0xA5A5;
                let kept_stamp = match want {
                    Some(i) => m[i].2,
                    None => ins_stamp,
                };
                let v = *e2.or_insert(nv2);
                ensure!(v == nv2, "re-insertion through the vacant entry (entry_ref chain) stores the value");
                match want {
                    Some(i) => m[i] = (id, nv2, kept_stamp),
                    None => m.push((id, nv2, kept_stamp)),
                }
            }
            0 | 1 => {
                let v = *e.or_insert(nv);
                match want {
                    Some(i) => ensure!(v == m[i].1, "EntryRef::or_insert keeps the stored value"),
                    None => m.push((id, nv, ins_stamp)),
                }
            }
            2 => {
                let v = *e.or_insert_with(|| id ^ nv);
                match want {
                    Some(i) => ensure!(v == m[i].1, "EntryRef::or_insert_with keeps the stored value"),
                    None => m.push((id, id ^ nv, ins_stamp)),
                }
            }
            3 => {
                let v = *e.or_default();
                match want {
                    Some(i) => ensure!(v == m[i].1, "EntryRef::or_default keeps the stored value"),
                    None => m.push((id, 0, ins_stamp)),
                }
            }
            4 => {
                let v = *e.and_modify(|v| *v = v.wrapping_add(1)).or_insert_with(|| nv);
                match want {
                    Some(i) => {
                        m[i].1 = m[i].1.wrapping_add(1);
                        ensure!(v == m[i].1, "EntryRef::and_modify modifies the stored value");
                    }
                    None => m.push((id, nv, ins_stamp)),
                }
            }
            5 | 6 => {
                let o = e.insert(nv);
                ensure!(*o.get() == nv, "EntryRef::insert returns the occupied entry holding the value");
                match want {
                    Some(i) => m[i].1 = nv,
                    None => m.push((id, nv, ins_stamp)),
                }
            }
            _ => match e {
                EntryRef::Occupied(o) => {
                    let i = want.unwrap();
                    if op == 7 {
                        ensure!(o.remove() == m[i].1, "EntryRef occupied remove returns the value");
                        m.remove(i);
                    }
                }
                EntryRef::Vacant(v) => {
                    if op == 7 {
                        ensure!(*v.insert(nv) == nv, "VacantEntryRef::insert");
                        m.push((id, nv, ins_stamp));
                    } else if op == 8 {
                        let o = v.insert_entry(nv);
                        ensure!(*o.get() == nv, "VacantEntryRef::insert_entry");
                        m.push((id, nv, ins_stamp));
                    } else {
                        ensure!(v.key().0 == id, "VacantEntryRef::key");
                    }
                }
            },
        }
    }
    ensure!(map.len() == m.len(), "len() equals the number of stored pairs");
    check_table(&map.table, &m)
}

/// clear / reserve / try_reserve / shrink_to / shrink_to_fit / retain / extend (C01, C08, C10)
pub fn ob_map_bulk<S: Src, const N: usize>(s: &mut S) -> Chk {
    let (mut map, mut m) = match start_map::<S, N>(s) {
        Some(x) => x,
        None => return Ok(()),
    };
    let cap0 = map.capacity();
    let size0 = map.allocation_size();
    let buckets0 = map.table.buckets();
    match s.below(8) {
        0 => {
            map.clear();
            m.clear();
            ensure!(map.allocation_size() == size0 && map.capacity() >= cap0, "clear keeps the allocation and restores full capacity");
        }
        1 => {
            let add = s.below(3 * N + 2);
            map.reserve(add);
            ensure!(map.capacity() >= m.len() + add, "reserve(n): capacity() >= len() + n");
        }
        2 => {
            let add = s.below(3 * N + 2);
            let r = map.try_reserve(add);
            ensure!(r.is_ok() && map.capacity() >= m.len() + add, "try_reserve(n) succeeds with capacity() >= len() + n");
        }
        3 | 4 => {
            let mn = if s.bool() { 0 } else { s.below(4 * cap0 + 2) };
            map.shrink_to(mn);
            let floor = core::cmp::max(m.len(), core::cmp::min(mn, cap0));
            ensure!(map.capacity() >= floor, "shrink_to(m): capacity() >= max(len, min(m, previous capacity))");
            ensure!(map.allocation_size() <= size0, "shrink_to never enlarges the allocation");
            if m.is_empty() && mn == 0 {
                ensure!(map.allocation_size() == 0, "shrink_to(0) of an empty map frees the allocation");
            } else if core::cmp::max(m.len(), mn) > 0 {
                let fresh: Map = HashMap::with_capacity_and_hasher(core::cmp::max(m.len(), mn), IdBuild::default());
                ensure!(map.table.buckets() <= fresh.table.buckets() && map.table.buckets() <= buckets0,
                        "shrink_to leaves the table no larger than a fresh with_capacity(max(len, m))");
            }
        }
        5 => {
            map.shrink_to_fit();
            ensure!(map.capacity() >= m.len() && map.allocation_size() <= size0, "shrink_to_fit keeps every element and never enlarges");
            if m.is_empty() {
                ensure!(map.allocation_size() == 0, "shrink_to_fit of an empty map frees the allocation");
            }
        }
        6 => {
            // retain: predicate called once per element, keeps exactly the `true` ones, edits persist
            let mask = s.u64();
            let mut seen: Vec<u64> = Vec::new();
            map.retain(|k, v| {
                seen.push(k.id);
                *v = v.wrapping_add(7);
                (mask >> (k.id & 63)) & 1 == 1
            });
            seen.sort();
            let mut all: Vec<u64> = m.iter().map(|e| e.0).collect();
            all.sort();
            ensure!(seen == all, "retain calls the predicate exactly once per element");
            m.retain(|e| (mask >> (e.0 & 63)) & 1 == 1);
            for e in m.iter_mut() {
                e.1 = e.1.wrapping_add(7);
            }
            ensure!(map.allocation_size() == size0, "retain keeps the allocation");
        }
        _ => {
            // extend with up to 5 pairs, duplicates included: the last value per key wins
            let k = s.below(6);
            let mut add: Vec<(Key, u64)> = Vec::new();
            for _ in 0..k {
                let id = draw_key(s, &m);
                let v = s.u64();
                add.push((pk(id), v));
            }
            for (kk, v) in add.iter() {
                match model_get(&m, kk.id) {
                    Some(i) => m[i].1 = *v,
                    None => m.push((kk.id, *v, STAMP_PROBE)),
                }
            }
            map.extend(add);
        }
    }
    ensure!(map.len() == m.len(), "len() equals the number of stored pairs");
    check_table(&map.table, &m)
}

/// from_iter / with_capacity / new / default (C01, C08)
pub fn ob_map_construct<S: Src, const N: usize>(s: &mut S) -> Chk {
    let k = s.below(2 * N + 1);
    let mut pairs: Vec<(Key, u64)> = Vec::new();
    let mut m: Ents = Vec::new();
    for _ in 0..k {
        let id = draw_key(s, &m);
        let v = s.u64();
        pairs.push((pk(id), v));
        match model_get(&m, id) {
            Some(i) => m[i].1 = v,
            None => m.push((id, v, STAMP_PROBE)),
        }
    }
    let map: Map = pairs.into_iter().collect();
    ensure!(map.len() == m.len(), "from_iter: one entry per distinct key");
    sub!(check_table(&map.table, &m));
    let c = s.below(4 * N);
    let w: Map = HashMap::with_capacity_and_hasher(c, IdBuild::default());
    ensure!(w.capacity() >= c, "with_capacity(n).capacity() >= n");
    ensure!((c == 0) == (w.allocation_size() == 0), "with_capacity(0) allocates nothing");
    let d: Map = HashMap::default();
    ensure!(d.allocation_size() == 0 && d.capacity() == 0 && d.is_empty(), "default() allocates nothing");
    check_table(&w.table, &Vec::new())
}
