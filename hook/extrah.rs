// ---------------------------------------------------------------------------
// raw_entry / rustc_entry (C14), element layouts (C02), rayon (C19), serde (C20)
// ---------------------------------------------------------------------------
use crate::hash_map::{RawEntryMut, RustcEntry};

/// raw_entry_mut / raw_entry builders and rustc_entry against the association-list reference
pub fn ob_raw_rustc_entry<S: Src, const N: usize>(s: &mut S) -> Chk {
    let (mut map, mut m) = match start_map::<S, N>(s) {
        Some(x) => x,
        None => return Ok(()),
    };
    let id = draw_key(s, &m);
    let want = model_get(&m, id);
    let nv = s.u64();
    let h = hash_of(id);
    let q = QKey(id);
    match s.below(14) {
        0 => {
            let a = map.raw_entry().from_key(&q).map(|(k, v)| (k.id, *v, k.stamp));
            let b = map.raw_entry().from_key_hashed_nocheck(h, &pk(id)).map(|(k, v)| (k.id, *v, k.stamp));
            let c = map.raw_entry().from_hash(h, |k| k.id == id).map(|(k, v)| (k.id, *v, k.stamp));
            ensure!(a == want.map(|i| m[i]) && b == a && c == a, "raw_entry().from_key / from_key_hashed_nocheck / from_hash return the stored pair exactly when present");
        }
        1 | 2 | 3 => {
            let which = s.below(3);
            let e = match which {
                0 => map.raw_entry_mut().from_key(&q),
                1 => map.raw_entry_mut().from_key_hashed_nocheck(h, &pk(id)),
                _ => map.raw_entry_mut().from_hash(h, |k| k.id == id),
            };
            ensure!(matches!(e, RawEntryMut::Occupied(_)) == want.is_some(), "raw_entry_mut builders report Occupied exactly when the key is present");
            match e {
                RawEntryMut::Occupied(mut o) => {
                    let i = want.unwrap();
                    ensure!((o.key().id, *o.get(), o.key().stamp) == m[i], "RawOccupiedEntryMut sees the stored pair");
                    match s.below(6) {
                        0 => {
                            ensure!(o.insert(nv) == m[i].1, "RawOccupiedEntryMut::insert returns the old value");
                            m[i].1 = nv;
                        }
                        1 => {
                            let old = o.insert_key(Key { id, stamp: 0xCAFE });
                            ensure!(old.stamp == m[i].2, "RawOccupiedEntryMut::insert_key returns the old key");
                            m[i].2 = 0xCAFE;
                        }
                        2 => {
                            ensure!(o.remove() == m[i].1, "RawOccupiedEntryMut::remove returns the value");
                            m.remove(i);
                        }
                        3 => {
                            let (k, v) = o.remove_entry();
                            ensure!((k.id, v, k.stamp) == m[i], "RawOccupiedEntryMut::remove_entry returns the stored pair");
                            m.remove(i);
                        }
                        4 => {
                            let keep = s.bool();
                            let e2 = o.replace_entry_with(|_, v| if keep { Some(v ^ 5) } else { None });
                            ensure!(matches!(e2, RawEntryMut::Occupied(_)) == keep, "RawOccupiedEntryMut::replace_entry_with: Occupied iff Some");
                            if keep {
                                m[i].1 ^= 5;
                            } else {
                                m.remove(i);
                            }
                        }
                        _ => {
                            *o.get_mut() = nv;
                            let (_, v) = o.into_key_value();
                            *v ^= 1;
                            m[i].1 = nv ^ 1;
                        }
                    }
                }
                RawEntryMut::Vacant(v) => match s.below(4) {
                    0 => {
                        let (k, vv) = v.insert(pk(id), nv);
                        ensure!(k.id == id && *vv == nv, "RawVacantEntryMut::insert returns the inserted pair");
                        m.push((id, nv, STAMP_PROBE));
                    }
                    1 => {
                        let (k, vv) = v.insert_hashed_nocheck(h, pk(id), nv);
                        ensure!(k.id == id && *vv == nv, "RawVacantEntryMut::insert_hashed_nocheck returns the inserted pair");
                        m.push((id, nv, STAMP_PROBE));
                    }
                    2 => {
                        let (k, vv) = v.insert_with_hasher(h, pk(id), nv, |k| hash_of(k.id));
                        ensure!(k.id == id && *vv == nv, "RawVacantEntryMut::insert_with_hasher returns the inserted pair");
                        m.push((id, nv, STAMP_PROBE));
                    }
                    _ => drop(v),
                },
            }
        }
        4 => {
            let (k, v) = map.raw_entry_mut().from_key(&q).or_insert(pk(id), nv);
            match want {
                Some(i) => ensure!(k.stamp == m[i].2 && *v == m[i].1, "RawEntryMut::or_insert keeps the stored pair"),
                None => m.push((id, nv, STAMP_PROBE)),
            }
        }
        5 => {
            let e = map.raw_entry_mut().from_key(&q).and_modify(|_, v| *v = v.wrapping_add(1));
            let (_, v) = e.or_insert_with(|| (pk(id), nv));
            match want {
                Some(i) => {
                    m[i].1 = m[i].1.wrapping_add(1);
                    ensure!(*v == m[i].1, "RawEntryMut::and_modify modifies the stored value");
                }
                None => m.push((id, nv, STAMP_PROBE)),
            }
        }
        6 => {
            let keep = s.bool();
            let e = map.raw_entry_mut().from_key(&q).and_replace_entry_with(|_, v| if keep { Some(v ^ 9) } else { None });
            match want {
                Some(i) => {
                    ensure!(matches!(e, RawEntryMut::Occupied(_)) == keep, "RawEntryMut::and_replace_entry_with: Occupied iff Some");
                    if keep {
                        m[i].1 ^= 9;
                    } else {
                        m.remove(i);
                    }
                }
                None => ensure!(matches!(e, RawEntryMut::Vacant(_)), "RawEntryMut::and_replace_entry_with leaves vacant vacant"),
            }
        }
        7 => {
            let e = map.raw_entry_mut().from_key(&q).insert(pk(id), nv);
            ensure!(*e.get() == nv, "RawEntryMut::insert returns the occupied entry holding the value");
            match want {
                Some(i) => {
                    m[i].1 = nv;
                }
                None => m.push((id, nv, STAMP_PROBE)),
            }
        }
        _ => {
            // rustc_entry: reserves at creation, Vacant insert trusts it (insert_no_grow)
            let size_before = map.allocation_size();
            let len_before = map.len();
            let e = map.rustc_entry(pk(id));
            ensure!(matches!(e, RustcEntry::Occupied(_)) == want.is_some(), "rustc_entry is Occupied exactly when the key is present");
            ensure!(e.key().id == id, "RustcEntry::key");
            match s.below(8) {
                0 => {
                    let v = *e.or_insert(nv);
                    match want {
                        Some(i) => ensure!(v == m[i].1, "RustcEntry::or_insert keeps the stored value"),
                        None => m.push((id, nv, STAMP_PROBE)),
                    }
                }
                1 => {
                    let v = *e.and_modify(|v| *v = v.wrapping_add(2)).or_insert_with(|| nv);
                    match want {
                        Some(i) => {
                            m[i].1 = m[i].1.wrapping_add(2);
                            ensure!(v == m[i].1, "RustcEntry::and_modify modifies the stored value");
                        }
                        None => m.push((id, nv, STAMP_PROBE)),
                    }
                }
                2 => {
                    let o = e.insert(nv);
                    ensure!(*o.get() == nv, "RustcEntry::insert returns the occupied entry");
                    match want {
                        Some(i) => m[i].1 = nv,
                        None => m.push((id, nv, STAMP_PROBE)),
                    }
                }
                3 => {
                    let v = *e.or_default();
                    match want {
                        Some(i) => ensure!(v == m[i].1, "RustcEntry::or_default keeps the stored value"),
                        None => m.push((id, 0, STAMP_PROBE)),
                    }
                }
                _ => match e {
                    RustcEntry::Occupied(mut o) => {
                        let i = want.unwrap();
                        ensure!(*o.get() == m[i].1 && o.key().stamp == m[i].2, "RustcOccupiedEntry sees the stored pair");
                        match s.below(4) {
                            0 => {
                                ensure!(o.insert(nv) == m[i].1, "RustcOccupiedEntry::insert returns the old value");
                                m[i].1 = nv;
                            }
                            1 => {
                                ensure!(o.remove() == m[i].1, "RustcOccupiedEntry::remove returns the value");
                                m.remove(i);
                            }
                            2 => {
                                let (k, v) = o.remove_entry();
                                ensure!((k.id, v, k.stamp) == m[i], "RustcOccupiedEntry::remove_entry returns the stored pair");
                                m.remove(i);
                            }
                            _ => {
                                *o.get_mut() = nv;
                                *o.into_mut() ^= 3;
                                m[i].1 = nv ^ 3;
                            }
                        }
                    }
                    RustcEntry::Vacant(v) => match s.below(4) {
                        0 => {
                            ensure!(*v.insert(nv) == nv, "RustcVacantEntry::insert returns the inserted value");
                            m.push((id, nv, STAMP_PROBE));
                        }
                        1 => {
                            let o = v.insert_entry(nv);
                            ensure!(*o.get() == nv, "RustcVacantEntry::insert_entry returns the occupied entry");
                            m.push((id, nv, STAMP_PROBE));
                        }
                        2 => ensure!(v.into_key().id == id, "RustcVacantEntry::into_key"),
                        _ => {
                            drop(v); // unused vacant entry: contents and len unchanged (capacity may have grown)
                            ensure!(map.len() == len_before, "a rustc vacant entry dropped unused leaves len() unchanged");
                        }
                    },
                },
            }
            let _ = size_before;
        }
    }
    ensure!(map.len() == m.len(), "len() equals the number of stored pairs");
    check_table(&map.table, &m)
}

// ----- element layouts (C02): ZST, size 1, 2, 24, 200, alignment 64 -----
#[derive(Clone, Copy, PartialEq, Eq, Debug)]
#[repr(align(64))]
pub struct Big64(pub u64);
fn layout_run<T: Copy + PartialEq + core::fmt::Debug, S: Src>(s: &mut S, mk: impl Fn(u64) -> T, hv: impl Fn(&T) -> u64, n_ops: usize) -> Chk {
    alloc_reset();
    let mut t: HashTable<T, LedgerAlloc> = HashTable::new_in(LedgerAlloc);
    let mut model: Vec<T> = Vec::new();
    for _ in 0..n_ops {
        let x = s.below(48) as u64;
        match s.below(8) {
            0 | 1 | 2 | 3 => {
                let v = mk(x);
                t.insert_unique(hv(&v), v, |e| hv(e));
                model.push(v);
            }
            4 | 5 => {
                let v = mk(x);
                if let Ok(e) = t.find_entry(hv(&v), |e| *e == v) {
                    e.remove();
                    let i = model.iter().position(|m| *m == v);
                    ensure!(i.is_some(), "layout run: removed element was stored");
                    model.remove(i.unwrap());
                } else {
                    ensure!(!model.contains(&v), "layout run: every stored element is found");
                }
            }
            6 => t.shrink_to_fit(|e| hv(e)),
            _ => t.reserve(s.below(40), |e| hv(e)),
        }
        ensure!(t.len() == model.len() && t.iter().count() == model.len(), "layout run: len() equals the number of elements yielded");
        ensure!(t.allocation_size() == alloc_live_bytes(), "layout run: allocation_size() equals the bytes currently held from the allocator");
        ensure!(alloc_error().is_none(), "layout run: blocks are freed with the layout they were allocated with");
        let p = t.raw.table.ctrl.as_ptr() as usize;
        ensure!(p % Group::WIDTH == 0 && (t.raw.buckets() == 1 || p % core::mem::align_of::<T>() == 0), "layout run: control bytes are aligned for group loads and (allocated tables) for the element type");
        for e in t.iter() {
            ensure!((e as *const T as usize) % core::mem::align_of::<T>() == 0, "layout run: element references are aligned");
            ensure!(model.contains(e), "layout run: every yielded element is a stored element");
        }
    }
    let mut it = t.drain();
    let k = s.below(model.len() + 1);
    for _ in 0..k {
        it.next();
    }
    if s.bool() {
        core::mem::forget(it);
    } else {
        drop(it);
    }
    ensure!(t.len() == 0 && t.iter().count() == 0, "layout run: after a dropped or leaked drain the table is a valid empty table");
    let v = mk(1);
    t.insert_unique(hv(&v), v, |e| hv(e));
    ensure!(t.find(hv(&v), |e| *e == v).is_some(), "layout run: usable after drain");
    Ok(())
}
pub fn ob_layouts<S: Src, const N: usize>(s: &mut S) -> Chk {
    let n_ops = s.below(3 * N) + 1;
    match s.below(9) {
        6 => layout_run::<[u8; 3], S>(s, |x| [x as u8, 1, 2], |e| hash_of((e[0] as u64) << 57 | (e[0] as u64 & 7)), n_ops),
        7 => layout_run::<[u16; 3], S>(s, |x| [x as u16, 1, 2], |e| hash_of((e[0] as u64) << 57 | (e[0] as u64 & 15)), n_ops),
        8 => layout_run::<(u8, [u8; 4]), S>(s, |x| (x as u8, [0; 4]), |e| hash_of((e.0 as u64) << 57 | (e.0 as u64 & 3)), n_ops),
        0 => layout_run::<(), S>(s, |_| (), |_| 0, n_ops),
        1 => layout_run::<u8, S>(s, |x| x as u8, |e| hash_of((*e as u64) << 57 | (*e as u64 & 7)), n_ops),
        2 => layout_run::<u16, S>(s, |x| x as u16, |e| hash_of((*e as u64) * 0x0101_0000_0000_0101), n_ops),
        3 => layout_run::<[u64; 3], S>(s, |x| [x, x ^ 1, x ^ 2], |e| hash_of(e[0] << 57 | e[0]), n_ops),
        4 => layout_run::<[u8; 200], S>(s, |x| [x as u8; 200], |e| hash_of((e[0] as u64) << 58 | (e[0] as u64 & 3)), n_ops),
        _ => layout_run::<Big64, S>(s, |x| Big64(x), |e| hash_of(e.0 << 57 | (e.0 & 0xF)), n_ops),
    }
}

// ----- rayon (C19) -----
#[cfg(feature = "rayon")]
mod par {
    use super::*;
    use rayon::prelude::*;
    use std::sync::atomic::{AtomicU64, Ordering};
    use std::sync::{Mutex, OnceLock};

    /// the bucket indices each leaf of a split tree yields (decisions drawn from `s`)
    fn split_tree<S: Src>(it: RawIterRange<u64>, t: &RawTable<u64>, depth: usize, s: &mut S, leaves: &mut Vec<Vec<usize>>) {
        if depth > 0 && s.bool() {
            let (l, r) = it.split();
            split_tree(l, t, depth - 1, s, leaves);
            if let Some(r) = r {
                split_tree(r, t, depth - 1, s, leaves);
            }
        } else {
            let mut v = Vec::new();
            for b in it {
                v.push(unsafe { t.bucket_index(&b) });
            }
            leaves.push(v);
        }
    }

    /// RawIterRange::split along any decision tree: the leaves partition the full buckets
    pub fn ob_split_tree<S: Src, const N: usize>(s: &mut S) -> Chk {
        let st = match draw_state::<S, N>(s, false) {
            Some(st) => st,
            None => return Ok(()),
        };
        let t = build(&st);
        let it = unsafe { t.iter() }.iter;
        let mut leaves = Vec::new();
        split_tree(it, &t, 5, s, &mut leaves);
        let mut all: Vec<usize> = leaves.iter().flatten().copied().collect();
        let total = all.len();
        all.sort();
        all.dedup();
        ensure!(all.len() == total, "split tree: no bucket is delivered by two leaves");
        let want: Vec<usize> = (0..N).filter(|i| st.kind[*i] == K_FULL).collect();
        ensure!(all == want, "split tree: the leaves together deliver exactly the full buckets");
        Ok(())
    }

    // global (cross-thread) drop ledger
    static CREATED: AtomicU64 = AtomicU64::new(0);
    static DROPPED: AtomicU64 = AtomicU64::new(0);
    static DOUBLE: AtomicU64 = AtomicU64::new(0);
    static LIVE: OnceLock<Mutex<std::collections::HashSet<u64>>> = OnceLock::new();
    fn live() -> &'static Mutex<std::collections::HashSet<u64>> {
        LIVE.get_or_init(|| Mutex::new(Default::default()))
    }
    #[derive(Debug)]
    pub struct GD {
        pub id: u64,
        uid: u64,
    }
    impl GD {
        pub fn new(id: u64) -> GD {
            let uid = CREATED.fetch_add(1, Ordering::SeqCst) + 1;
            live().lock().unwrap().insert(uid);
            GD { id, uid }
        }
    }
    impl Drop for GD {
        fn drop(&mut self) {
            DROPPED.fetch_add(1, Ordering::SeqCst);
            if !live().lock().unwrap().remove(&self.uid) {
                DOUBLE.fetch_add(1, Ordering::SeqCst);
            }
        }
    }
    impl PartialEq for GD {
        fn eq(&self, o: &GD) -> bool {
            self.id == o.id
        }
    }
    impl Eq for GD {}
    impl core::hash::Hash for GD {
        fn hash<H: core::hash::Hasher>(&self, h: &mut H) {
            h.write_u64(self.id)
        }
    }
    impl Elt for (GD, u64) {
        fn make(id: u64, aux: u64, _s: u64) -> Self {
            (GD::new(id), aux)
        }
        fn id(&self) -> u64 {
            self.0.id
        }
        fn aux(&self) -> u64 {
            self.1
        }
    }
    fn pools() -> &'static Vec<rayon::ThreadPool> {
        static P: OnceLock<Vec<rayon::ThreadPool>> = OnceLock::new();
        P.get_or_init(|| [1usize, 2, 3, 8, 64].iter().map(|n| rayon::ThreadPoolBuilder::new().num_threads(*n).build().unwrap()).collect())
    }

    /// parallel adaptors deliver every element exactly once; par_drain leaves an empty usable map and
    /// drops what a short-circuiting consumer never received exactly once; par_extend / from_par_iter /
    /// par_eq / parallel set operations agree with the sequential ones
    pub fn ob_rayon<S: Src, const N: usize>(s: &mut S) -> Chk {
        let st = match draw_map_state::<S, N>(s) {
            Some(Some(st)) => st,
            _ => return Ok(()),
        };
        let m = ents_of(&st);
        let mut want: Vec<u64> = m.iter().map(|e| e.0).collect();
        want.sort();
        let pool = &pools()[s.below(5)];
        live().lock().unwrap().clear();
        let c0 = CREATED.load(Ordering::SeqCst);
        let d0 = DROPPED.load(Ordering::SeqCst);
        let dd0 = DOUBLE.load(Ordering::SeqCst);
        {
            let mut map: HashMap<GD, u64, IdBuild> = HashMap { hash_builder: IdBuild::default(), table: build_t::<(GD, u64), N>(&st) };
            let op = s.below(9);
            let stop = s.below(want.len() + 1) as u64;
            let r: Chk = pool.install(|| {
                match op {
                    0 => {
                        let mut got: Vec<u64> = map.par_iter().map(|(k, _)| k.id).collect();
                        got.sort();
                        ensure!(got == want, "par_iter delivers every stored element exactly once");
                    }
                    1 => {
                        map.par_iter_mut().for_each(|(_, v)| *v = v.wrapping_add(1));
                        let mut got: Vec<(u64, u64)> = map.iter().map(|(k, v)| (k.id, *v)).collect();
                        got.sort();
                        let mut w: Vec<(u64, u64)> = m.iter().map(|e| (e.0, e.1.wrapping_add(1))).collect();
                        w.sort();
                        ensure!(got == w, "par_iter_mut visits every element exactly once");
                    }
                    2 => {
                        let mut k: Vec<u64> = map.par_keys().map(|k| k.id).collect();
                        k.sort();
                        let n = map.par_values().count();
                        map.par_values_mut().for_each(|v| *v ^= 1);
                        ensure!(k == want && n == want.len(), "par_keys / par_values deliver every element exactly once");
                    }
                    3 => {
                        let mut got: Vec<u64> = map.par_drain().map(|(k, _)| k.id).collect();
                        got.sort();
                        ensure!(got == want, "par_drain delivers every stored element exactly once");
                        ensure!(map.is_empty(), "par_drain leaves the collection empty");
                        map.insert(GD::new(1), 1);
                        ensure!(map.len() == 1, "the collection is usable after par_drain");
                    }
                    4 => {
                        // short-circuiting consumer
                        let _ = map.par_drain().find_any(|(k, _)| k.id % 7 == stop % 7);
                        ensure!(map.is_empty(), "par_drain with a short-circuiting consumer leaves the collection empty");
                    }
                    5 => {
                        let mut taken = core::mem::replace(&mut map, HashMap::with_hasher(IdBuild::default()));
                        let _ = taken.par_drain().find_first(|(k, _)| k.id & 1 == stop & 1);
                        let mut got: Vec<u64> = taken.into_par_iter().map(|(k, _)| k.id).collect();
                        got.sort();
                        ensure!(got.is_empty(), "into_par_iter of a drained map is empty");
                    }
                    6 => {
                        let owned = core::mem::replace(&mut map, HashMap::with_hasher(IdBuild::default()));
                        let mut got: Vec<u64> = owned.into_par_iter().map(|(k, _)| k.id).collect();
                        got.sort();
                        ensure!(got == want, "into_par_iter delivers every stored element exactly once");
                    }
                    7 => {
                        // repeated keys with different values, spread over the input: the last one must win
                        let extra: Vec<(u64, u64)> = (0..(s_extra(stop) * 40)).map(|j| (want.get((j % 3) as usize).copied().unwrap_or((j % 3) + 0x7000), j)).collect();
                        let mut seqm: std::collections::BTreeMap<u64, u64> = m.iter().map(|e| (e.0, e.1)).collect();
                        for (k, v) in extra.iter() {
                            seqm.insert(*k, *v);
                        }
                        map.par_extend(extra.clone().into_par_iter().map(|(k, v)| (GD::new(k), v)));
                        let mut got: Vec<(u64, u64)> = map.iter().map(|(k, v)| (k.id, *v)).collect();
                        got.sort();
                        let w: Vec<(u64, u64)> = seqm.into_iter().collect();
                        ensure!(got == w, "par_extend gives the same result as sequential extend");
                        let fp: HashMap<u64, u64, IdBuild> = extra.clone().into_par_iter().collect();
                        let fs: HashMap<u64, u64, IdBuild> = extra.iter().copied().collect();
                        ensure!(fp == fs, "from_par_iter gives the same result as from_iter (last value per key)");
                    }
                    _ => {
                        let a: HashSet<u64, IdBuild> = want.par_iter().copied().collect();
                        let b: HashSet<u64, IdBuild> = want.iter().copied().filter(|x| x % 3 != stop % 3).chain([0xABCD_0000 + stop]).collect();
                        let mut u: Vec<u64> = a.par_union(&b).copied().collect();
                        let mut su: Vec<u64> = a.union(&b).copied().collect();
                        u.sort();
                        su.sort();
                        let mut i: Vec<u64> = a.par_intersection(&b).copied().collect();
                        let mut si: Vec<u64> = a.intersection(&b).copied().collect();
                        i.sort();
                        si.sort();
                        let mut d: Vec<u64> = a.par_difference(&b).copied().collect();
                        let mut sd: Vec<u64> = a.difference(&b).copied().collect();
                        d.sort();
                        sd.sort();
                        let mut x: Vec<u64> = a.par_symmetric_difference(&b).copied().collect();
                        let mut sx: Vec<u64> = a.symmetric_difference(&b).copied().collect();
                        x.sort();
                        sx.sort();
                        ensure!(u == su && i == si && d == sd && x == sx, "parallel set operations agree with the sequential ones");
                        ensure!(a.par_is_subset(&b) == a.is_subset(&b) && a.par_is_superset(&b) == a.is_superset(&b) && a.par_is_disjoint(&b) == a.is_disjoint(&b) && a.par_eq(&b) == (a == b), "parallel set predicates agree with the sequential ones");
                        ensure!(a.len() == want.len(), "from_par_iter builds the same set as from_iter");
                    }
                }
                Ok(())
            });
            sub!(r);
            sub!(check_wf_only(&map.table));
        }
        ensure!(DOUBLE.load(Ordering::SeqCst) == dd0, "parallel adaptors: no element dropped twice");
        ensure!(CREATED.load(Ordering::SeqCst) - c0 == DROPPED.load(Ordering::SeqCst) - d0, "parallel adaptors: every element dropped exactly once (also those a short-circuiting consumer never received)");
        Ok(())
    }
    fn s_extra(x: u64) -> u64 {
        x % 9
    }
}
#[cfg(feature = "rayon")]
pub use par::{ob_rayon, ob_split_tree};

// ----- serde (C20) -----
#[cfg(feature = "serde")]
mod serd {
    use super::*;
    use serde::de::value::{Error as DeError, U64Deserializer};
    use serde::de::{DeserializeSeed, Deserializer, IntoDeserializer, MapAccess, SeqAccess, Visitor};
    use serde::ser::{Impossible, SerializeMap, SerializeSeq, Serializer};
    use serde::{Deserialize, Serialize};

    impl<'de> Deserialize<'de> for D {
        fn deserialize<De: Deserializer<'de>>(d: De) -> Result<D, De::Error> {
            u64::deserialize(d).map(D::new)
        }
    }
    /// input with a (possibly lying) size hint and an error injected at position `fail_at`
    struct Input {
        items: Vec<(u64, u64)>,
        pos: usize,
        hint: Option<usize>,
        fail_at: usize,
        as_map: bool,
    }
    impl<'de> MapAccess<'de> for &mut Input {
        type Error = DeError;
        fn next_key_seed<K: DeserializeSeed<'de>>(&mut self, seed: K) -> Result<Option<K::Value>, DeError> {
            if self.pos == self.fail_at {
                return Err(serde::de::Error::custom("injected"));
            }
            if self.pos >= self.items.len() {
                return Ok(None);
            }
            let d: U64Deserializer<DeError> = self.items[self.pos].0.into_deserializer();
            seed.deserialize(d).map(Some)
        }
        fn next_value_seed<V: DeserializeSeed<'de>>(&mut self, seed: V) -> Result<V::Value, DeError> {
            let d: U64Deserializer<DeError> = self.items[self.pos].1.into_deserializer();
            self.pos += 1;
            seed.deserialize(d)
        }
        fn size_hint(&self) -> Option<usize> {
            self.hint
        }
    }
    impl<'de> SeqAccess<'de> for &mut Input {
        type Error = DeError;
        fn next_element_seed<K: DeserializeSeed<'de>>(&mut self, seed: K) -> Result<Option<K::Value>, DeError> {
            if self.pos == self.fail_at {
                return Err(serde::de::Error::custom("injected"));
            }
            if self.pos >= self.items.len() {
                return Ok(None);
            }
            let d: U64Deserializer<DeError> = self.items[self.pos].0.into_deserializer();
            self.pos += 1;
            seed.deserialize(d).map(Some)
        }
        fn size_hint(&self) -> Option<usize> {
            self.hint
        }
    }
    impl<'de> Deserializer<'de> for &mut Input {
        type Error = DeError;
        fn deserialize_any<V: Visitor<'de>>(self, v: V) -> Result<V::Value, DeError> {
            if self.as_map {
                v.visit_map(self)
            } else {
                v.visit_seq(self)
            }
        }
        serde::forward_to_deserialize_any! { bool i8 i16 i32 i64 i128 u8 u16 u32 u64 u128 f32 f64 char str string bytes byte_buf option unit unit_struct newtype_struct seq tuple tuple_struct map struct enum identifier ignored_any }
    }

    /// minimal Serializer recording a map / sequence of u64
    struct Rec<'a>(&'a mut Vec<u64>);
    struct RecU64<'a>(&'a mut Vec<u64>);
    impl<'a> Serializer for RecU64<'a> {
        type Ok = ();
        type Error = DeError;
        type SerializeSeq = Impossible<(), DeError>;
        type SerializeTuple = Impossible<(), DeError>;
        type SerializeTupleStruct = Impossible<(), DeError>;
        type SerializeTupleVariant = Impossible<(), DeError>;
        type SerializeMap = Impossible<(), DeError>;
        type SerializeStruct = Impossible<(), DeError>;
        type SerializeStructVariant = Impossible<(), DeError>;
        fn serialize_u64(self, v: u64) -> Result<(), DeError> {
            self.0.push(v);
            Ok(())
        }
        fn collect_str<T: ?Sized + core::fmt::Display>(self, _: &T) -> Result<(), DeError> { Err(serde::ser::Error::custom("u")) }
        fn serialize_bool(self, _: bool) -> Result<(), DeError> { Err(serde::ser::Error::custom("u")) }
        fn serialize_i8(self, _: i8) -> Result<(), DeError> { Err(serde::ser::Error::custom("u")) }
        fn serialize_i16(self, _: i16) -> Result<(), DeError> { Err(serde::ser::Error::custom("u")) }
        fn serialize_i32(self, _: i32) -> Result<(), DeError> { Err(serde::ser::Error::custom("u")) }
        fn serialize_i64(self, _: i64) -> Result<(), DeError> { Err(serde::ser::Error::custom("u")) }
        fn serialize_u8(self, _: u8) -> Result<(), DeError> { Err(serde::ser::Error::custom("u")) }
        fn serialize_u16(self, _: u16) -> Result<(), DeError> { Err(serde::ser::Error::custom("u")) }
        fn serialize_u32(self, _: u32) -> Result<(), DeError> { Err(serde::ser::Error::custom("u")) }
        fn serialize_f32(self, _: f32) -> Result<(), DeError> { Err(serde::ser::Error::custom("u")) }
        fn serialize_f64(self, _: f64) -> Result<(), DeError> { Err(serde::ser::Error::custom("u")) }
        fn serialize_char(self, _: char) -> Result<(), DeError> { Err(serde::ser::Error::custom("u")) }
        fn serialize_str(self, _: &str) -> Result<(), DeError> { Err(serde::ser::Error::custom("u")) }
        fn serialize_bytes(self, _: &[u8]) -> Result<(), DeError> { Err(serde::ser::Error::custom("u")) }
        fn serialize_none(self) -> Result<(), DeError> { Err(serde::ser::Error::custom("u")) }
        fn serialize_some<T: ?Sized + Serialize>(self, _: &T) -> Result<(), DeError> { Err(serde::ser::Error::custom("u")) }
        fn serialize_unit(self) -> Result<(), DeError> { Err(serde::ser::Error::custom("u")) }
        fn serialize_unit_struct(self, _: &'static str) -> Result<(), DeError> { Err(serde::ser::Error::custom("u")) }
        fn serialize_unit_variant(self, _: &'static str, _: u32, _: &'static str) -> Result<(), DeError> { Err(serde::ser::Error::custom("u")) }
        fn serialize_newtype_struct<T: ?Sized + Serialize>(self, _: &'static str, _: &T) -> Result<(), DeError> { Err(serde::ser::Error::custom("u")) }
        fn serialize_newtype_variant<T: ?Sized + Serialize>(self, _: &'static str, _: u32, _: &'static str, _: &T) -> Result<(), DeError> { Err(serde::ser::Error::custom("u")) }
        fn serialize_seq(self, _: Option<usize>) -> Result<Self::SerializeSeq, DeError> { Err(serde::ser::Error::custom("u")) }
        fn serialize_tuple(self, _: usize) -> Result<Self::SerializeTuple, DeError> { Err(serde::ser::Error::custom("u")) }
        fn serialize_tuple_struct(self, _: &'static str, _: usize) -> Result<Self::SerializeTupleStruct, DeError> { Err(serde::ser::Error::custom("u")) }
        fn serialize_tuple_variant(self, _: &'static str, _: u32, _: &'static str, _: usize) -> Result<Self::SerializeTupleVariant, DeError> { Err(serde::ser::Error::custom("u")) }
        fn serialize_map(self, _: Option<usize>) -> Result<Self::SerializeMap, DeError> { Err(serde::ser::Error::custom("u")) }
        fn serialize_struct(self, _: &'static str, _: usize) -> Result<Self::SerializeStruct, DeError> { Err(serde::ser::Error::custom("u")) }
        fn serialize_struct_variant(self, _: &'static str, _: u32, _: &'static str, _: usize) -> Result<Self::SerializeStructVariant, DeError> { Err(serde::ser::Error::custom("u")) }
    }
    impl<'a> SerializeMap for Rec<'a> {
        type Ok = ();
        type Error = DeError;
        fn serialize_key<T: ?Sized + Serialize>(&mut self, k: &T) -> Result<(), DeError> {
            k.serialize(RecU64(self.0))
        }
        fn serialize_value<T: ?Sized + Serialize>(&mut self, v: &T) -> Result<(), DeError> {
            v.serialize(RecU64(self.0))
        }
        fn end(self) -> Result<(), DeError> {
            Ok(())
        }
    }
    impl<'a> SerializeSeq for Rec<'a> {
        type Ok = ();
        type Error = DeError;
        fn serialize_element<T: ?Sized + Serialize>(&mut self, v: &T) -> Result<(), DeError> {
            v.serialize(RecU64(self.0))
        }
        fn end(self) -> Result<(), DeError> {
            Ok(())
        }
    }
    impl<'a> Serializer for Rec<'a> {
        type Ok = ();
        type Error = DeError;
        type SerializeSeq = Rec<'a>;
        type SerializeTuple = Impossible<(), DeError>;
        type SerializeTupleStruct = Impossible<(), DeError>;
        type SerializeTupleVariant = Impossible<(), DeError>;
        type SerializeMap = Rec<'a>;
        type SerializeStruct = Impossible<(), DeError>;
        type SerializeStructVariant = Impossible<(), DeError>;
        fn serialize_seq(self, _: Option<usize>) -> Result<Rec<'a>, DeError> { Ok(self) }
        fn serialize_map(self, _: Option<usize>) -> Result<Rec<'a>, DeError> { Ok(self) }
        fn collect_str<T: ?Sized + core::fmt::Display>(self, _: &T) -> Result<(), DeError> { Err(serde::ser::Error::custom("u")) }
        fn serialize_u64(self, _: u64) -> Result<(), DeError> { Err(serde::ser::Error::custom("u")) }
        fn serialize_bool(self, _: bool) -> Result<(), DeError> { Err(serde::ser::Error::custom("u")) }
        fn serialize_i8(self, _: i8) -> Result<(), DeError> { Err(serde::ser::Error::custom("u")) }
        fn serialize_i16(self, _: i16) -> Result<(), DeError> { Err(serde::ser::Error::custom("u")) }
        fn serialize_i32(self, _: i32) -> Result<(), DeError> { Err(serde::ser::Error::custom("u")) }
        fn serialize_i64(self, _: i64) -> Result<(), DeError> { Err(serde::ser::Error::custom("u")) }
        fn serialize_u8(self, _: u8) -> Result<(), DeError> { Err(serde::ser::Error::custom("u")) }
        fn serialize_u16(self, _: u16) -> Result<(), DeError> { Err(serde::ser::Error::custom("u")) }
        fn serialize_u32(self, _: u32) -> Result<(), DeError> { Err(serde::ser::Error::custom("u")) }
        fn serialize_f32(self, _: f32) -> Result<(), DeError> { Err(serde::ser::Error::custom("u")) }
        fn serialize_f64(self, _: f64) -> Result<(), DeError> { Err(serde::ser::Error::custom("u")) }
        fn serialize_char(self, _: char) -> Result<(), DeError> { Err(serde::ser::Error::custom("u")) }
        fn serialize_str(self, _: &str) -> Result<(), DeError> { Err(serde::ser::Error::custom("u")) }
        fn serialize_bytes(self, _: &[u8]) -> Result<(), DeError> { Err(serde::ser::Error::custom("u")) }
        fn serialize_none(self) -> Result<(), DeError> { Err(serde::ser::Error::custom("u")) }
        fn serialize_some<T: ?Sized + Serialize>(self, _: &T) -> Result<(), DeError> { Err(serde::ser::Error::custom("u")) }
        fn serialize_unit(self) -> Result<(), DeError> { Err(serde::ser::Error::custom("u")) }
        fn serialize_unit_struct(self, _: &'static str) -> Result<(), DeError> { Err(serde::ser::Error::custom("u")) }
        fn serialize_unit_variant(self, _: &'static str, _: u32, _: &'static str) -> Result<(), DeError> { Err(serde::ser::Error::custom("u")) }
        fn serialize_newtype_struct<T: ?Sized + Serialize>(self, _: &'static str, _: &T) -> Result<(), DeError> { Err(serde::ser::Error::custom("u")) }
        fn serialize_newtype_variant<T: ?Sized + Serialize>(self, _: &'static str, _: u32, _: &'static str, _: &T) -> Result<(), DeError> { Err(serde::ser::Error::custom("u")) }
        fn serialize_tuple(self, _: usize) -> Result<Self::SerializeTuple, DeError> { Err(serde::ser::Error::custom("u")) }
        fn serialize_tuple_struct(self, _: &'static str, _: usize) -> Result<Self::SerializeTupleStruct, DeError> { Err(serde::ser::Error::custom("u")) }
        fn serialize_tuple_variant(self, _: &'static str, _: u32, _: &'static str, _: usize) -> Result<Self::SerializeTupleVariant, DeError> { Err(serde::ser::Error::custom("u")) }
        fn serialize_struct(self, _: &'static str, _: usize) -> Result<Self::SerializeStruct, DeError> { Err(serde::ser::Error::custom("u")) }
        fn serialize_struct_variant(self, _: &'static str, _: u32, _: &'static str, _: usize) -> Result<Self::SerializeStructVariant, DeError> { Err(serde::ser::Error::custom("u")) }
    }

    pub fn ob_serde<S: Src, const N: usize>(s: &mut S) -> Chk {
        ledger_reset();
        disarm_fault();
        let k = s.below(2 * N + 1);
        let mut items: Vec<(u64, u64)> = Vec::new();
        let mut model: std::collections::BTreeMap<u64, u64> = Default::default();
        for _ in 0..k {
            let key = s.below(N) as u64 * 0x0100_0000_0000_0101;
            let v = s.u64();
            items.push((key, v));
        }
        let hint = match s.below(5) {
            0 => None,
            1 => Some(k),
            2 => Some(usize::MAX - s.below(3)),
            3 => Some(0),
            _ => Some(s.usize()),
        };
        let fail_at = if s.bool() { usize::MAX } else { s.below(k + 1) };
        let as_map = s.bool();
        for (i, (key, v)) in items.iter().enumerate() {
            if i < fail_at {
                model.insert(*key, *v);
            }
        }
        {
            let mut inp = Input { items: items.clone(), pos: 0, hint, fail_at, as_map };
            if as_map {
                let r: Result<HashMap<u64, D, IdBuild>, DeError> = HashMap::deserialize(&mut inp);
                match r {
                    Ok(map) => {
                        ensure!(fail_at == usize::MAX || fail_at > k, "deserialize: an input error is returned");
                        ensure!(map.capacity() <= 2 * 8192 + 2 * k, "the capacity reserved from a claimed length is bounded by a small constant");
                        let mut got: Vec<(u64, u64)> = map.iter().map(|(a, b)| (*a, b.id)).collect();
                        got.sort();
                        let w: Vec<(u64, u64)> = model.iter().map(|(a, b)| (*a, *b)).collect();
                        ensure!(got == w, "deserialize keeps the last value for each repeated key");
                        // round trip
                        let plain: HashMap<u64, u64, IdBuild> = map.iter().map(|(a, b)| (*a, b.id)).collect();
                        let mut out = Vec::new();
                        ensure!(plain.serialize(Rec(&mut out)).is_ok(), "serialize succeeds");
                        let pairs: Vec<(u64, u64)> = out.chunks(2).map(|c| (c[0], c[1])).collect();
                        let mut inp2 = Input { items: pairs, pos: 0, hint: Some(plain.len()), fail_at: usize::MAX, as_map: true };
                        let back: Result<HashMap<u64, u64, IdBuild>, DeError> = HashMap::deserialize(&mut inp2);
                        ensure!(back.map(|b| b == plain).unwrap_or(false), "deserialize(serialize(map)) == map");
                        // in-place refill
                        let mut target: HashMap<u64, u64, IdBuild> = plain.clone();
                        target.insert(0xDEAD, 1);
                        let mut inp3 = Input { items: out.chunks(2).map(|c| (c[0], c[1])).collect(), pos: 0, hint: None, fail_at: usize::MAX, as_map: true };
                        ensure!(HashMap::deserialize_in_place(&mut inp3, &mut target).is_ok() && target == plain, "deserialize_in_place clears then refills");
                        // in-place with a lying size hint: bounded reservation, no panic
                        let mut t2: HashMap<u64, u64, IdBuild> = HashMap::default();
                        let mut inp4 = Input { items: out.chunks(2).map(|c| (c[0], c[1])).collect(), pos: 0, hint, fail_at: usize::MAX, as_map: true };
                        let r4 = std::panic::catch_unwind(std::panic::AssertUnwindSafe(|| HashMap::deserialize_in_place(&mut inp4, &mut t2).is_ok()));
                        ensure!(r4.unwrap_or(false) && t2 == plain, "map deserialize_in_place with any claimed length succeeds");
                        ensure!(t2.capacity() <= 2 * 8192 + 2 * k, "map deserialize_in_place: reserved capacity bounded whatever the input claims");
                    }
                    Err(_) => ensure!(fail_at <= k, "deserialize fails only on an input error"),
                }
            } else {
                let r: Result<HashSet<D, IdBuild>, DeError> = HashSet::deserialize(&mut inp);
                match r {
                    Ok(set) => {
                        ensure!(set.capacity() <= 2 * 8192 + 2 * k, "the capacity reserved from a claimed length is bounded by a small constant (set)");
                        let mut got: Vec<u64> = set.iter().map(|d| d.id).collect();
                        got.sort();
                        let w: Vec<u64> = model.keys().copied().collect();
                        ensure!(got == w, "set deserialize yields the distinct elements");
                        let plain: HashSet<u64, IdBuild> = got.iter().copied().collect();
                        let mut out = Vec::new();
                        ensure!(plain.serialize(Rec(&mut out)).is_ok(), "set serialize succeeds");
                        let mut inp2 = Input { items: out.iter().map(|x| (*x, 0)).collect(), pos: 0, hint: Some(out.len()), fail_at: usize::MAX, as_map: false };
                        let back: Result<HashSet<u64, IdBuild>, DeError> = HashSet::deserialize(&mut inp2);
                        ensure!(back.map(|b| b == plain).unwrap_or(false), "deserialize(serialize(set)) == set");
                        let mut t2: HashSet<u64, IdBuild> = HashSet::default();
                        t2.insert(0xDEAD);
                        let mut inp4 = Input { items: out.iter().map(|x| (*x, 0)).collect(), pos: 0, hint, fail_at: usize::MAX, as_map: false };
                        let r4 = std::panic::catch_unwind(std::panic::AssertUnwindSafe(|| HashSet::deserialize_in_place(&mut inp4, &mut t2).is_ok()));
                        ensure!(r4.unwrap_or(false) && t2 == plain, "set deserialize_in_place clears then refills, with any claimed length");
                        ensure!(t2.capacity() <= 2 * 8192 + 2 * k, "set deserialize_in_place: reserved capacity bounded whatever the input claims");
                    }
                    Err(_) => ensure!(fail_at <= k, "set deserialize fails only on an input error"),
                }
            }
        }
        ensure!(ledger_double_drops() == 0 && ledger_live() == 0, "a deserialisation error part-way neither leaks nor double-drops already-built elements");
        Ok(())
    }
}
#[cfg(feature = "serde")]
pub use serd::ob_serde;
