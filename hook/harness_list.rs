// Instantiations (bucket counts) of the generic obligations, and the harness registry.
macro_rules! inst {
    ($name:ident = $f:ident < $($n:literal),* >) => {
        pub fn $name<S: Src>(s: &mut S) -> Chk { $f::<S, $($n),*>(s) }
    };
}
inst!(h_find_n4 = ob_find<4>);
inst!(h_find_n8 = ob_find<8>);
inst!(h_find_n16 = ob_find<16>);
inst!(h_find_unlawful_n8 = ob_find_unlawful<8>);
inst!(h_find_insert_slot_n4 = ob_find_insert_slot<4>);
inst!(h_find_insert_slot_n8 = ob_find_insert_slot<8>);
inst!(h_find_insert_slot_n16 = ob_find_insert_slot<16>);
inst!(h_find_or_insert_slot_n4 = ob_find_or_insert_slot<4>);
inst!(h_find_or_insert_slot_n8 = ob_find_or_insert_slot<8>);
inst!(h_find_or_insert_slot_n16 = ob_find_or_insert_slot<16>);
inst!(h_insert_in_slot_n4 = ob_insert_in_slot<4>);
inst!(h_insert_in_slot_n8 = ob_insert_in_slot<8>);
inst!(h_insert_in_slot_n16 = ob_insert_in_slot<16>);
inst!(h_remove_n4 = ob_remove<4>);
inst!(h_remove_n8 = ob_remove<8>);
inst!(h_remove_n16 = ob_remove<16>);
inst!(h_insert_n4 = ob_insert<4, 8>);
inst!(h_insert_n8 = ob_insert<8, 16>);
inst!(h_resize_n4 = ob_resize<4, 8>);
inst!(h_resize_n8 = ob_resize<8, 16>);
inst!(h_rehash_in_place_n4 = ob_rehash_in_place<4>);
inst!(h_rehash_in_place_n8 = ob_rehash_in_place<8>);
inst!(h_clear_n4 = ob_clear<4>);
inst!(h_clear_n8 = ob_clear<8>);
inst!(h_clear_n16 = ob_clear<16>);
inst!(h_iter_fold_n4 = ob_iter_fold<4>);
inst!(h_iter_fold_n8 = ob_iter_fold<8>);
inst!(h_iter_fold_n16 = ob_iter_fold<16>);
inst!(h_drain_n4 = ob_drain<4>);
inst!(h_drain_n8 = ob_drain<8>);
inst!(h_drain_n16 = ob_drain<16>);
inst!(h_clone_n4 = ob_clone<4>);
inst!(h_clone_n8 = ob_clone<8>);
inst!(h_clone_n16 = ob_clone<16>);
inst!(h_get_many2_n4 = ob_get_many2<4>);
inst!(h_get_many2_n8 = ob_get_many2<8>);
inst!(h_get_many2_n16 = ob_get_many2<16>);
inst!(h_iter_hash_n4 = ob_iter_hash<4>);
inst!(h_iter_hash_n8 = ob_iter_hash<8>);
inst!(h_iter_hash_n16 = ob_iter_hash<16>);
inst!(h_replace_bucket_with_n4 = ob_replace_bucket_with<4>);
inst!(h_replace_bucket_with_n8 = ob_replace_bucket_with<8>);
inst!(h_replace_bucket_with_n16 = ob_replace_bucket_with<16>);
inst!(h_iter_n4 = ob_iter<4>);
inst!(h_iter_n8 = ob_iter<8>);
inst!(h_iter_n16 = ob_iter<16>);


#[cfg(not(kani))]
mod native_inst {
    use super::*;
    macro_rules! ninst {
        ($name:ident = $f:ident < $($n:literal),* >) => {
            pub fn $name<S: Src>(s: &mut S) -> Chk { $f::<S, $($n),*>(s) }
        };
    }
    ninst!(r_find_n4 = ob_find<4>);
    ninst!(r_find_n8 = ob_find<8>);
    ninst!(r_find_n16 = ob_find<16>);
    ninst!(r_find_n32 = ob_find<32>);
    ninst!(r_find_n64 = ob_find<64>);
    ninst!(r_find_unlawful_n4 = ob_find_unlawful<4>);
    ninst!(r_find_unlawful_n8 = ob_find_unlawful<8>);
    ninst!(r_find_unlawful_n16 = ob_find_unlawful<16>);
    ninst!(r_find_unlawful_n32 = ob_find_unlawful<32>);
    ninst!(r_find_unlawful_n64 = ob_find_unlawful<64>);
    ninst!(r_find_insert_slot_n4 = ob_find_insert_slot<4>);
    ninst!(r_find_insert_slot_n8 = ob_find_insert_slot<8>);
    ninst!(r_find_insert_slot_n16 = ob_find_insert_slot<16>);
    ninst!(r_find_insert_slot_n32 = ob_find_insert_slot<32>);
    ninst!(r_find_insert_slot_n64 = ob_find_insert_slot<64>);
    ninst!(r_find_or_insert_slot_n4 = ob_find_or_insert_slot<4>);
    ninst!(r_find_or_insert_slot_n8 = ob_find_or_insert_slot<8>);
    ninst!(r_find_or_insert_slot_n16 = ob_find_or_insert_slot<16>);
    ninst!(r_find_or_insert_slot_n32 = ob_find_or_insert_slot<32>);
    ninst!(r_find_or_insert_slot_n64 = ob_find_or_insert_slot<64>);
    ninst!(r_insert_in_slot_n4 = ob_insert_in_slot<4>);
    ninst!(r_insert_in_slot_n8 = ob_insert_in_slot<8>);
    ninst!(r_insert_in_slot_n16 = ob_insert_in_slot<16>);
    ninst!(r_insert_in_slot_n32 = ob_insert_in_slot<32>);
    ninst!(r_insert_in_slot_n64 = ob_insert_in_slot<64>);
    ninst!(r_remove_n4 = ob_remove<4>);
    ninst!(r_remove_n8 = ob_remove<8>);
    ninst!(r_remove_n16 = ob_remove<16>);
    ninst!(r_remove_n32 = ob_remove<32>);
    ninst!(r_remove_n64 = ob_remove<64>);
    ninst!(r_insert_n4 = ob_insert<4, 8>);
    ninst!(r_insert_n8 = ob_insert<8, 16>);
    ninst!(r_insert_n16 = ob_insert<16, 32>);
    ninst!(r_insert_n32 = ob_insert<32, 64>);
    ninst!(r_resize_n4 = ob_resize<4, 8>);
    ninst!(r_resize_n8 = ob_resize<8, 16>);
    ninst!(r_resize_n16 = ob_resize<16, 32>);
    ninst!(r_resize_n32 = ob_resize<32, 64>);
    ninst!(r_rehash_in_place_n4 = ob_rehash_in_place<4>);
    ninst!(r_rehash_in_place_n8 = ob_rehash_in_place<8>);
    ninst!(r_rehash_in_place_n16 = ob_rehash_in_place<16>);
    ninst!(r_rehash_in_place_n32 = ob_rehash_in_place<32>);
    ninst!(r_rehash_in_place_n64 = ob_rehash_in_place<64>);
    ninst!(r_iter_n4 = ob_iter<4>);
    ninst!(r_iter_n8 = ob_iter<8>);
    ninst!(r_iter_n16 = ob_iter<16>);
    ninst!(r_iter_n32 = ob_iter<32>);
    ninst!(r_iter_n64 = ob_iter<64>);
    ninst!(r_set_algebra_n4 = ob_set_algebra<4>);
    ninst!(r_set_algebra_n8 = ob_set_algebra<8>);
    ninst!(r_set_algebra_n16 = ob_set_algebra<16>);
    ninst!(r_set_algebra_n32 = ob_set_algebra<32>);
    ninst!(r_set_algebra_n64 = ob_set_algebra<64>);
    ninst!(r_set_elem_n4 = ob_set_elem<4>);
    ninst!(r_set_elem_n8 = ob_set_elem<8>);
    ninst!(r_set_elem_n16 = ob_set_elem<16>);
    ninst!(r_set_elem_n32 = ob_set_elem<32>);
    ninst!(r_set_elem_n64 = ob_set_elem<64>);
    ninst!(r_table_ops_n4 = ob_table_ops<4>);
    ninst!(r_table_ops_n8 = ob_table_ops<8>);
    ninst!(r_table_ops_n16 = ob_table_ops<16>);
    ninst!(r_table_ops_n32 = ob_table_ops<32>);
    ninst!(r_table_ops_n64 = ob_table_ops<64>);
    ninst!(r_get_many_mut_n4 = ob_get_many_mut<4>);
    ninst!(r_get_many_mut_n8 = ob_get_many_mut<8>);
    ninst!(r_get_many_mut_n16 = ob_get_many_mut<16>);
    ninst!(r_get_many_mut_n32 = ob_get_many_mut<32>);
    ninst!(r_get_many_mut_n64 = ob_get_many_mut<64>);
    ninst!(r_table_get_many_mut_n4 = ob_table_get_many_mut<4>);
    ninst!(r_table_get_many_mut_n8 = ob_table_get_many_mut<8>);
    ninst!(r_table_get_many_mut_n16 = ob_table_get_many_mut<16>);
    ninst!(r_table_get_many_mut_n32 = ob_table_get_many_mut<32>);
    ninst!(r_table_get_many_mut_n64 = ob_table_get_many_mut<64>);
    ninst!(r_map_iter_n4 = ob_map_iter<4>);
    ninst!(r_map_iter_n8 = ob_map_iter<8>);
    ninst!(r_map_iter_n16 = ob_map_iter<16>);
    ninst!(r_map_iter_n32 = ob_map_iter<32>);
    ninst!(r_map_iter_n64 = ob_map_iter<64>);
    ninst!(r_set_table_iter_n4 = ob_set_table_iter<4>);
    ninst!(r_set_table_iter_n8 = ob_set_table_iter<8>);
    ninst!(r_set_table_iter_n16 = ob_set_table_iter<16>);
    ninst!(r_set_table_iter_n32 = ob_set_table_iter<32>);
    ninst!(r_set_table_iter_n64 = ob_set_table_iter<64>);
    ninst!(r_drain_extract_n4 = ob_drain_extract<4>);
    ninst!(r_drain_extract_n8 = ob_drain_extract<8>);
    ninst!(r_drain_extract_n16 = ob_drain_extract<16>);
    ninst!(r_drain_extract_n32 = ob_drain_extract<32>);
    ninst!(r_drain_extract_n64 = ob_drain_extract<64>);
    ninst!(r_life_n4 = ob_life<4>);
    ninst!(r_life_n8 = ob_life<8>);
    ninst!(r_life_n16 = ob_life<16>);
    ninst!(r_life_n32 = ob_life<32>);
    ninst!(r_life_n64 = ob_life<64>);
    ninst!(r_no_alloc_n4 = ob_no_alloc<4>);
    ninst!(r_no_alloc_n8 = ob_no_alloc<8>);
    ninst!(r_no_alloc_n16 = ob_no_alloc<16>);
    ninst!(r_no_alloc_n32 = ob_no_alloc<32>);
    ninst!(r_no_alloc_n64 = ob_no_alloc<64>);
    ninst!(r_try_reserve_n4 = ob_try_reserve<4>);
    ninst!(r_try_reserve_n8 = ob_try_reserve<8>);
    ninst!(r_try_reserve_n16 = ob_try_reserve<16>);
    ninst!(r_try_reserve_n32 = ob_try_reserve<32>);
    ninst!(r_try_reserve_n64 = ob_try_reserve<64>);
    ninst!(r_clone_eq_n4_m8 = ob_clone_eq<4, 8>);
    ninst!(r_clone_eq_n8_m4 = ob_clone_eq<8, 4>);
    ninst!(r_clone_eq_n8_m8 = ob_clone_eq<8, 8>);
    ninst!(r_clone_eq_n16_m32 = ob_clone_eq<16, 32>);
    ninst!(r_clone_eq_n32_m8 = ob_clone_eq<32, 8>);
    ninst!(r_clone_eq_n32_m32 = ob_clone_eq<32, 32>);
    ninst!(r_clone_eq_n64_m16 = ob_clone_eq<64, 16>);
    ninst!(r_panic_n4 = ob_panic<4>);
    ninst!(r_panic_n8 = ob_panic<8>);
    ninst!(r_panic_n16 = ob_panic<16>);
    ninst!(r_panic_n32 = ob_panic<32>);
    ninst!(r_panic_n64 = ob_panic<64>);
    ninst!(r_panic_nodrop_n4 = ob_panic_nodrop<4>);
    ninst!(r_panic_nodrop_n8 = ob_panic_nodrop<8>);
    ninst!(r_panic_nodrop_n16 = ob_panic_nodrop<16>);
    ninst!(r_panic_nodrop_n32 = ob_panic_nodrop<32>);
    ninst!(r_panic_nodrop_n64 = ob_panic_nodrop<64>);
    ninst!(r_unlawful_n4 = ob_unlawful<4>);
    ninst!(r_unlawful_n8 = ob_unlawful<8>);
    ninst!(r_unlawful_n16 = ob_unlawful<16>);
    ninst!(r_unlawful_n32 = ob_unlawful<32>);
    ninst!(r_unlawful_n64 = ob_unlawful<64>);
    ninst!(r_raw_rustc_entry_n4 = ob_raw_rustc_entry<4>);
    ninst!(r_raw_rustc_entry_n8 = ob_raw_rustc_entry<8>);
    ninst!(r_raw_rustc_entry_n16 = ob_raw_rustc_entry<16>);
    ninst!(r_raw_rustc_entry_n32 = ob_raw_rustc_entry<32>);
    ninst!(r_raw_rustc_entry_n64 = ob_raw_rustc_entry<64>);
    ninst!(r_layouts_n4 = ob_layouts<4>);
    ninst!(r_layouts_n8 = ob_layouts<8>);
    ninst!(r_layouts_n16 = ob_layouts<16>);
    ninst!(r_layouts_n32 = ob_layouts<32>);
    ninst!(r_layouts_n64 = ob_layouts<64>);
    ninst!(r_split_tree_n4 = ob_split_tree<4>);
    ninst!(r_split_tree_n8 = ob_split_tree<8>);
    ninst!(r_split_tree_n16 = ob_split_tree<16>);
    ninst!(r_split_tree_n32 = ob_split_tree<32>);
    ninst!(r_split_tree_n64 = ob_split_tree<64>);
    ninst!(r_rayon_n4 = ob_rayon<4>);
    ninst!(r_rayon_n8 = ob_rayon<8>);
    ninst!(r_rayon_n16 = ob_rayon<16>);
    ninst!(r_rayon_n32 = ob_rayon<32>);
    ninst!(r_rayon_n64 = ob_rayon<64>);
    ninst!(r_serde_n4 = ob_serde<4>);
    ninst!(r_serde_n8 = ob_serde<8>);
    ninst!(r_serde_n16 = ob_serde<16>);
    ninst!(r_serde_n32 = ob_serde<32>);
    ninst!(r_serde_n64 = ob_serde<64>);
    ninst!(r_reserve_n4 = ob_reserve<4>);
    ninst!(r_reserve_n8 = ob_reserve<8>);
    ninst!(r_reserve_n16 = ob_reserve<16>);
    ninst!(r_reserve_n32 = ob_reserve<32>);
    ninst!(r_reserve_n64 = ob_reserve<64>);
    ninst!(r_insert_full_load_n4 = ob_insert_full_load<4, 8>);
    ninst!(r_insert_full_load_n8 = ob_insert_full_load<8, 16>);
    ninst!(r_insert_full_load_n16 = ob_insert_full_load<16, 32>);
    ninst!(r_insert_full_load_n32 = ob_insert_full_load<32, 64>);
    ninst!(r_insert_full_load_n64 = ob_insert_full_load<64, 128>);
    ninst!(r_clear_n4 = ob_clear<4>);
    ninst!(r_clear_n8 = ob_clear<8>);
    ninst!(r_clear_n16 = ob_clear<16>);
    ninst!(r_clear_n32 = ob_clear<32>);
    ninst!(r_clear_n64 = ob_clear<64>);
    ninst!(r_iter_fold_n4 = ob_iter_fold<4>);
    ninst!(r_iter_fold_n8 = ob_iter_fold<8>);
    ninst!(r_iter_fold_n16 = ob_iter_fold<16>);
    ninst!(r_iter_fold_n32 = ob_iter_fold<32>);
    ninst!(r_iter_fold_n64 = ob_iter_fold<64>);
    ninst!(r_drain_n4 = ob_drain<4>);
    ninst!(r_drain_n8 = ob_drain<8>);
    ninst!(r_drain_n16 = ob_drain<16>);
    ninst!(r_drain_n32 = ob_drain<32>);
    ninst!(r_drain_n64 = ob_drain<64>);
    ninst!(r_clone_n4 = ob_clone<4>);
    ninst!(r_clone_n8 = ob_clone<8>);
    ninst!(r_clone_n16 = ob_clone<16>);
    ninst!(r_clone_n32 = ob_clone<32>);
    ninst!(r_clone_n64 = ob_clone<64>);
    ninst!(r_get_many2_n4 = ob_get_many2<4>);
    ninst!(r_get_many2_n8 = ob_get_many2<8>);
    ninst!(r_get_many2_n16 = ob_get_many2<16>);
    ninst!(r_get_many2_n32 = ob_get_many2<32>);
    ninst!(r_get_many2_n64 = ob_get_many2<64>);
    ninst!(r_iter_hash_n4 = ob_iter_hash<4>);
    ninst!(r_iter_hash_n8 = ob_iter_hash<8>);
    ninst!(r_iter_hash_n16 = ob_iter_hash<16>);
    ninst!(r_iter_hash_n32 = ob_iter_hash<32>);
    ninst!(r_iter_hash_n64 = ob_iter_hash<64>);
    ninst!(r_replace_bucket_with_n4 = ob_replace_bucket_with<4>);
    ninst!(r_replace_bucket_with_n8 = ob_replace_bucket_with<8>);
    ninst!(r_replace_bucket_with_n16 = ob_replace_bucket_with<16>);
    ninst!(r_replace_bucket_with_n32 = ob_replace_bucket_with<32>);
    ninst!(r_replace_bucket_with_n64 = ob_replace_bucket_with<64>);
    ninst!(r_map_lookup_n4 = ob_map_lookup<4>);
    ninst!(r_map_lookup_n8 = ob_map_lookup<8>);
    ninst!(r_map_lookup_n16 = ob_map_lookup<16>);
    ninst!(r_map_lookup_n32 = ob_map_lookup<32>);
    ninst!(r_map_lookup_n64 = ob_map_lookup<64>);
    ninst!(r_map_update_n4 = ob_map_update<4>);
    ninst!(r_map_update_n8 = ob_map_update<8>);
    ninst!(r_map_update_n16 = ob_map_update<16>);
    ninst!(r_map_update_n32 = ob_map_update<32>);
    ninst!(r_map_update_n64 = ob_map_update<64>);
    ninst!(r_map_entry_n4 = ob_map_entry<4>);
    ninst!(r_map_entry_n8 = ob_map_entry<8>);
    ninst!(r_map_entry_n16 = ob_map_entry<16>);
    ninst!(r_map_entry_n32 = ob_map_entry<32>);
    ninst!(r_map_entry_n64 = ob_map_entry<64>);
    ninst!(r_map_bulk_n4 = ob_map_bulk<4>);
    ninst!(r_map_bulk_n8 = ob_map_bulk<8>);
    ninst!(r_map_bulk_n16 = ob_map_bulk<16>);
    ninst!(r_map_bulk_n32 = ob_map_bulk<32>);
    ninst!(r_map_bulk_n64 = ob_map_bulk<64>);
    ninst!(r_map_construct_n8 = ob_map_construct<8>);
    ninst!(r_map_construct_n32 = ob_map_construct<32>);
}
#[cfg(not(kani))]
pub use native_inst::*;

harnesses! {
    kani {
    h_capacity_to_buckets,
    h_bucket_mask_to_capacity,
    h_calculate_layout_for,
    h_table_layout_new,
    h_bucket_index,
    h_move_next,
    h_h1,
    #[kani::unwind(66)] h_probe_cycle,
    h_tag,
    #[kani::unwind(18)] h_group,
    #[kani::unwind(18)] h_bitmask,
    #[kani::unwind(18)] h_static_empty,
    h_std_specs,
    h_cautious,
    #[kani::unwind(6)] h_find_n4,
    #[kani::unwind(10)] h_find_n8,
    #[kani::unwind(18)] h_find_n16,
    #[kani::unwind(10)] h_find_unlawful_n8,
    #[kani::unwind(6)] h_find_insert_slot_n4,
    #[kani::unwind(10)] h_find_insert_slot_n8,
    #[kani::unwind(18)] h_find_insert_slot_n16,
    #[kani::unwind(6)] h_find_or_insert_slot_n4,
    #[kani::unwind(10)] h_find_or_insert_slot_n8,
    #[kani::unwind(18)] h_find_or_insert_slot_n16,
    #[kani::unwind(6)] h_insert_in_slot_n4,
    #[kani::unwind(10)] h_insert_in_slot_n8,
    #[kani::unwind(18)] h_insert_in_slot_n16,
    #[kani::unwind(6)] h_remove_n4,
    #[kani::unwind(10)] h_remove_n8,
    #[kani::unwind(18)] h_remove_n16,
    #[kani::unwind(6)] h_insert_n4,
    #[kani::unwind(10)] h_insert_n8,
    #[kani::unwind(10)] h_resize_n4,
    #[kani::unwind(18)] h_resize_n8,
    #[kani::unwind(6)] h_rehash_in_place_n4,
    #[kani::unwind(10)] h_rehash_in_place_n8,
    #[kani::unwind(6)] h_clear_n4,
    #[kani::unwind(10)] h_clear_n8,
    #[kani::unwind(18)] h_clear_n16,
    #[kani::unwind(6)] h_iter_fold_n4,
    #[kani::unwind(10)] h_iter_fold_n8,
    #[kani::unwind(18)] h_iter_fold_n16,
    #[kani::unwind(6)] h_drain_n4,
    #[kani::unwind(10)] h_drain_n8,
    #[kani::unwind(18)] h_drain_n16,
    #[kani::unwind(6)] h_clone_n4,
    #[kani::unwind(10)] h_clone_n8,
    #[kani::unwind(18)] h_clone_n16,
    #[kani::unwind(6)] h_get_many2_n4,
    #[kani::unwind(10)] h_get_many2_n8,
    #[kani::unwind(18)] h_get_many2_n16,
    #[kani::unwind(6)] h_iter_hash_n4,
    #[kani::unwind(10)] h_iter_hash_n8,
    #[kani::unwind(18)] h_iter_hash_n16,
    #[kani::unwind(6)] h_replace_bucket_with_n4,
    #[kani::unwind(10)] h_replace_bucket_with_n8,
    #[kani::unwind(18)] h_replace_bucket_with_n16,
    #[kani::unwind(6)] h_iter_n4,
    #[kani::unwind(10)] h_iter_n8,
    #[kani::unwind(18)] h_iter_n16,
    }
    native {
        r_clear_n4,
        r_clear_n8,
        r_clear_n16,
        r_clear_n32,
        r_clear_n64,
        r_iter_fold_n4,
        r_iter_fold_n8,
        r_iter_fold_n16,
        r_iter_fold_n32,
        r_iter_fold_n64,
        r_drain_n4,
        r_drain_n8,
        r_drain_n16,
        r_drain_n32,
        r_drain_n64,
        r_clone_n4,
        r_clone_n8,
        r_clone_n16,
        r_clone_n32,
        r_clone_n64,
        r_get_many2_n4,
        r_get_many2_n8,
        r_get_many2_n16,
        r_get_many2_n32,
        r_get_many2_n64,
        r_iter_hash_n4,
        r_iter_hash_n8,
        r_iter_hash_n16,
        r_iter_hash_n32,
        r_iter_hash_n64,
        r_replace_bucket_with_n4,
        r_replace_bucket_with_n8,
        r_replace_bucket_with_n16,
        r_replace_bucket_with_n32,
        r_replace_bucket_with_n64,
        r_reserve_n4,
        r_reserve_n8,
        r_reserve_n16,
        r_reserve_n32,
        r_reserve_n64,
        r_insert_full_load_n4,
        r_insert_full_load_n8,
        r_insert_full_load_n16,
        r_insert_full_load_n32,
        r_insert_full_load_n64,
        r_raw_rustc_entry_n4,
        r_raw_rustc_entry_n8,
        r_raw_rustc_entry_n16,
        r_raw_rustc_entry_n32,
        r_raw_rustc_entry_n64,
        r_layouts_n4,
        r_layouts_n8,
        r_layouts_n16,
        r_layouts_n32,
        r_layouts_n64,
        r_split_tree_n4,
        r_split_tree_n8,
        r_split_tree_n16,
        r_split_tree_n32,
        r_split_tree_n64,
        r_rayon_n4,
        r_rayon_n8,
        r_rayon_n16,
        r_rayon_n32,
        r_rayon_n64,
        r_serde_n4,
        r_serde_n8,
        r_serde_n16,
        r_serde_n32,
        r_serde_n64,
        r_panic_n4,
        r_panic_n8,
        r_panic_n16,
        r_panic_n32,
        r_panic_n64,
        r_panic_nodrop_n4,
        r_panic_nodrop_n8,
        r_panic_nodrop_n16,
        r_panic_nodrop_n32,
        r_panic_nodrop_n64,
        r_unlawful_n4,
        r_unlawful_n8,
        r_unlawful_n16,
        r_unlawful_n32,
        r_unlawful_n64,
        r_life_n4,
        r_life_n8,
        r_life_n16,
        r_life_n32,
        r_life_n64,
        r_no_alloc_n4,
        r_no_alloc_n8,
        r_no_alloc_n16,
        r_no_alloc_n32,
        r_no_alloc_n64,
        r_try_reserve_n4,
        r_try_reserve_n8,
        r_try_reserve_n16,
        r_try_reserve_n32,
        r_try_reserve_n64,
        r_clone_eq_n4_m8,
        r_clone_eq_n8_m4,
        r_clone_eq_n8_m8,
        r_clone_eq_n16_m32,
        r_clone_eq_n32_m8,
        r_clone_eq_n32_m32,
        r_clone_eq_n64_m16,
        r_set_algebra_n4,
        r_set_algebra_n8,
        r_set_algebra_n16,
        r_set_algebra_n32,
        r_set_algebra_n64,
        r_set_elem_n4,
        r_set_elem_n8,
        r_set_elem_n16,
        r_set_elem_n32,
        r_set_elem_n64,
        r_table_ops_n4,
        r_table_ops_n8,
        r_table_ops_n16,
        r_table_ops_n32,
        r_table_ops_n64,
        r_get_many_mut_n4,
        r_get_many_mut_n8,
        r_get_many_mut_n16,
        r_get_many_mut_n32,
        r_get_many_mut_n64,
        r_table_get_many_mut_n4,
        r_table_get_many_mut_n8,
        r_table_get_many_mut_n16,
        r_table_get_many_mut_n32,
        r_table_get_many_mut_n64,
        r_map_iter_n4,
        r_map_iter_n8,
        r_map_iter_n16,
        r_map_iter_n32,
        r_map_iter_n64,
        r_set_table_iter_n4,
        r_set_table_iter_n8,
        r_set_table_iter_n16,
        r_set_table_iter_n32,
        r_set_table_iter_n64,
        r_drain_extract_n4,
        r_drain_extract_n8,
        r_drain_extract_n16,
        r_drain_extract_n32,
        r_drain_extract_n64,
        r_find_n4,
        r_find_n8,
        r_find_n16,
        r_find_n32,
        r_find_n64,
        r_find_unlawful_n4,
        r_find_unlawful_n8,
        r_find_unlawful_n16,
        r_find_unlawful_n32,
        r_find_unlawful_n64,
        r_find_insert_slot_n4,
        r_find_insert_slot_n8,
        r_find_insert_slot_n16,
        r_find_insert_slot_n32,
        r_find_insert_slot_n64,
        r_find_or_insert_slot_n4,
        r_find_or_insert_slot_n8,
        r_find_or_insert_slot_n16,
        r_find_or_insert_slot_n32,
        r_find_or_insert_slot_n64,
        r_insert_in_slot_n4,
        r_insert_in_slot_n8,
        r_insert_in_slot_n16,
        r_insert_in_slot_n32,
        r_insert_in_slot_n64,
        r_remove_n4,
        r_remove_n8,
        r_remove_n16,
        r_remove_n32,
        r_remove_n64,
        r_insert_n4,
        r_insert_n8,
        r_insert_n16,
        r_insert_n32,
        r_resize_n4,
        r_resize_n8,
        r_resize_n16,
        r_resize_n32,
        r_rehash_in_place_n4,
        r_rehash_in_place_n8,
        r_rehash_in_place_n16,
        r_rehash_in_place_n32,
        r_rehash_in_place_n64,
        r_iter_n4,
        r_iter_n8,
        r_iter_n16,
        r_iter_n32,
        r_iter_n64,
        r_map_lookup_n4,
        r_map_lookup_n8,
        r_map_lookup_n16,
        r_map_lookup_n32,
        r_map_lookup_n64,
        r_map_update_n4,
        r_map_update_n8,
        r_map_update_n16,
        r_map_update_n32,
        r_map_update_n64,
        r_map_entry_n4,
        r_map_entry_n8,
        r_map_entry_n16,
        r_map_entry_n32,
        r_map_entry_n64,
        r_map_bulk_n4,
        r_map_bulk_n8,
        r_map_bulk_n16,
        r_map_bulk_n32,
        r_map_bulk_n64,
        r_map_construct_n8,
        r_map_construct_n32,
    }
}
