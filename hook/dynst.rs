// ---------------------------------------------------------------------------
// Dynamic-size abstract state, reference models and ledgers for the public-API obligations.
// Native engine (R) only: uses Vec, thread-locals and unwinding.
// ---------------------------------------------------------------------------
use std::cell::RefCell;

/// Abstract state of a table of any bucket count, read back from real memory with wf checked.
pub struct DynSt {
    pub n: usize,
    pub kind: Vec<u8>,
    pub id: Vec<u64>,
    pub aux: Vec<u64>,
    pub stamp: Vec<u64>,
    pub items: usize,
    pub growth_left: usize,
}

pub fn read_dyn<T: Elt, A: Allocator>(t: &RawTable<T, A>) -> Result<DynSt, &'static str> {
    let n = t.table.bucket_mask.wrapping_add(1);
    ensure!(n != 0 && n.is_power_of_two(), "wf: bucket count is a power of two");
    let mut st = DynSt { n, kind: vec![K_EMPTY; n], id: vec![0; n], aux: vec![0; n], stamp: vec![0; n],
                         items: t.table.items, growth_left: t.table.growth_left };
    if n == 1 {
        ensure!(t.table.items == 0 && t.table.growth_left == 0, "wf(singleton): counts are zero");
        ensure!(t.table.ctrl.as_ptr() as *const u8 == Group::static_empty().as_ptr() as *const u8, "wf(singleton): shared static group");
        return Ok(st);
    }
    ensure!(n >= 4, "wf: allocated tables have at least 4 buckets");
    let w = Group::WIDTH;
    let mut full = 0;
    let mut del = 0;
    unsafe {
        let c = t.table.ctrl.as_ptr();
        for i in 0..n {
            let b = *c.add(i);
            if b == EMPTY {
            } else if b == DELETED {
                st.kind[i] = K_DELETED;
                del += 1;
            } else {
                ensure!(b < 0x80, "wf: control byte is EMPTY, DELETED or a 7-bit tag");
                st.kind[i] = K_FULL;
                full += 1;
                let e = t.bucket(i);
                st.id[i] = e.as_ref().id();
                st.aux[i] = e.as_ref().aux();
                st.stamp[i] = e.as_ref().stamp();
                ensure!(b == spec_tag(hash_of(st.id[i])), "wf: tag of a full bucket is the tag of its element's hash");
            }
        }
        for j in n..n + w {
            let want = if n >= w { *c.add(j - n) } else if j < w { EMPTY } else { *c.add(j - w) };
            ensure!(*c.add(j) == want, "wf: mirrored / padding control bytes");
        }
    }
    let cap = spec_cap_of(n - 1);
    ensure!(t.table.items == full, "wf: items == number of full buckets");
    ensure!(full + del <= cap, "wf: items + tombstones <= capacity (an EMPTY bucket always exists)");
    ensure!(t.table.growth_left == cap - full - del, "wf: growth_left + items + tombstones == capacity");
    Ok(st)
}

impl DynSt {
    pub fn deleted(&self) -> usize {
        self.kind.iter().filter(|k| **k == K_DELETED).count()
    }
    pub fn capacity(&self) -> usize {
        if self.n == 1 { 0 } else { spec_cap_of(self.n - 1) }
    }
    pub fn reach_one(&self, i: usize, h: u64) -> bool {
        let w = Group::WIDTH;
        let n = self.n;
        if n <= w {
            return true;
        }
        let start = (h as usize) & (n - 1);
        for k in 0..n / w {
            let pos = (start + w * (k * (k + 1) / 2)) & (n - 1);
            if (i.wrapping_sub(pos) & (n - 1)) < w {
                return true;
            }
            for j in 0..w {
                if self.kind[(pos + j) & (n - 1)] == K_EMPTY {
                    return false;
                }
            }
        }
        false
    }
    pub fn reach_all(&self) -> bool {
        (0..self.n).all(|i| self.kind[i] != K_FULL || self.reach_one(i, hash_of(self.id[i])))
    }
    /// (id, aux, stamp) of every stored element, sorted
    pub fn ents(&self) -> Vec<(u64, u64, u64)> {
        let mut v: Vec<_> = (0..self.n).filter(|i| self.kind[*i] == K_FULL).map(|i| (self.id[i], self.aux[i], self.stamp[i])).collect();
        v.sort();
        v
    }
}

/// abstract state -> entries, with the payloads `build_t` gives stored elements
pub fn ents_of<const N: usize>(st: &St<N>) -> Vec<(u64, u64, u64)> {
    let mut v = Vec::new();
    for i in 0..N {
        if st.kind[i] == K_FULL {
            v.push((st.val[i], aux_of(st.val[i], i), stamp_of(st.val[i], i)));
        }
    }
    v.sort();
    v
}

/// Inv of a real table + contents equal to the reference entries.
pub fn check_table<T: Elt, A: Allocator>(t: &RawTable<T, A>, want: &Vec<(u64, u64, u64)>) -> Chk {
    let d = read_dyn(t)?;
    ensure!(d.reach_all(), "Inv: every stored element is reachable by the probe sequence of its hash");
    let mut w = want.clone();
    w.sort();
    ensure!(d.ents().len() == w.len(), "contents: number of stored elements equals the reference");
    ensure!(d.ents() == w, "contents: stored elements (key, value, stored-key identity) equal the reference");
    Ok(())
}
pub fn check_wf_only<T: Elt, A: Allocator>(t: &RawTable<T, A>) -> Chk {
    let _ = read_dyn(t)?;
    Ok(())
}

// ----- key / hasher types of the public-API obligations -----

/// A key whose Hash/Eq look at `id` only; `stamp` tells equal keys apart.
#[derive(Clone, Copy, Debug)]
pub struct Key {
    pub id: u64,
    pub stamp: u64,
}
impl PartialEq for Key {
    fn eq(&self, o: &Key) -> bool {
        callback_point(CB_EQ);
        self.id == o.id
    }
}
impl Eq for Key {}
impl core::hash::Hash for Key {
    fn hash<H: core::hash::Hasher>(&self, h: &mut H) {
        h.write_u64(self.id)
    }
}
/// an equivalent borrowed form of a key (same Hash, `Equivalent<Key>`)
pub struct QKey(pub u64);
impl core::hash::Hash for QKey {
    fn hash<H: core::hash::Hasher>(&self, h: &mut H) {
        h.write_u64(self.0)
    }
}
impl crate::Equivalent<Key> for QKey {
    fn equivalent(&self, k: &Key) -> bool {
        callback_point(CB_EQ);
        self.0 == k.id
    }
}
impl From<&QKey> for Key {
    fn from(q: &QKey) -> Key {
        callback_point(CB_INTO);
        Key { id: q.0, stamp: STAMP_FROM_Q }
    }
}
pub const STAMP_FROM_Q: u64 = 0x0F0F_0000_0000_0001;
pub const STAMP_PROBE: u64 = 0x00AB_0000_0000_0002;

#[derive(Clone, Copy, Default)]
pub struct IdBuild {
    pub seed: u64, // ignored by the hash: two maps with different seeds hash alike (== ignores hasher state)
}
pub struct IdHasher(u64);
impl core::hash::BuildHasher for IdBuild {
    type Hasher = IdHasher;
    fn build_hasher(&self) -> IdHasher {
        IdHasher(0)
    }
}
impl core::hash::Hasher for IdHasher {
    fn write(&mut self, b: &[u8]) {
        for x in b {
            self.0 = (self.0 << 8) | *x as u64;
        }
    }
    fn write_u64(&mut self, x: u64) {
        self.0 = x;
    }
    fn finish(&self) -> u64 {
        callback_point(CB_HASH);
        hash_of(self.0)
    }
}

impl Elt for (Key, u64) {
    fn make(id: u64, aux: u64, stamp: u64) -> Self {
        (Key { id, stamp }, aux)
    }
    fn id(&self) -> u64 {
        self.0.id
    }
    fn aux(&self) -> u64 {
        self.1
    }
    fn stamp(&self) -> u64 {
        self.0.stamp
    }
}
impl Elt for (Key, ()) {
    fn make(id: u64, _aux: u64, stamp: u64) -> Self {
        (Key { id, stamp }, ())
    }
    fn id(&self) -> u64 {
        self.0.id
    }
    fn stamp(&self) -> u64 {
        self.0.stamp
    }
}
impl Elt for Key {
    fn make(id: u64, _aux: u64, stamp: u64) -> Self {
        Key { id, stamp }
    }
    fn id(&self) -> u64 {
        self.id
    }
    fn stamp(&self) -> u64 {
        self.stamp
    }
}

// ----- callback fault injection (C04) -----
pub const CB_HASH: u8 = 1;
pub const CB_EQ: u8 = 2;
pub const CB_CLONE: u8 = 3;
pub const CB_DROP: u8 = 4;
pub const CB_INTO: u8 = 5;
pub const CB_PRED: u8 = 6;

std::thread_local! {
    /// (class to fail, countdown): the k-th invocation of a callback of that class panics
    static FAULT: RefCell<(u8, i64)> = RefCell::new((0, -1));
    static CALLS: RefCell<[u64; 8]> = RefCell::new([0; 8]);
}
pub fn arm_fault(class: u8, k: i64) {
    FAULT.with(|f| *f.borrow_mut() = (class, k));
}
pub fn disarm_fault() {
    FAULT.with(|f| *f.borrow_mut() = (0, -1));
}
pub fn calls(class: u8) -> u64 {
    CALLS.with(|c| c.borrow()[class as usize])
}
pub fn reset_calls() {
    CALLS.with(|c| *c.borrow_mut() = [0; 8]);
}
#[inline]
pub fn callback_point(class: u8) {
    CALLS.with(|c| c.borrow_mut()[class as usize] += 1);
    let fire = FAULT.with(|f| {
        let mut f = f.borrow_mut();
        if f.0 == class && f.1 >= 0 {
            if f.1 == 0 {
                f.1 = -1;
                return true;
            }
            f.1 -= 1;
        }
        false
    });
    if fire {
        std::panic::panic_any(InjectedPanic);
    }
}
pub struct InjectedPanic;

// ----- drop ledger (C03): every tracked value is released exactly once -----
std::thread_local! {
    static LIVE: RefCell<std::collections::HashSet<u64>> = RefCell::new(Default::default());
    static NEXT_UID: RefCell<u64> = RefCell::new(1);
    static DOUBLE_DROP: RefCell<u64> = RefCell::new(0);
}
pub fn ledger_reset() {
    LIVE.with(|l| l.borrow_mut().clear());
    DOUBLE_DROP.with(|d| *d.borrow_mut() = 0);
}
pub fn ledger_live() -> usize {
    LIVE.with(|l| l.borrow().len())
}
pub fn ledger_double_drops() -> u64 {
    DOUBLE_DROP.with(|d| *d.borrow())
}
/// element with drop glue: `id` is what Hash/Eq see, `uid` identifies the instance in the ledger
#[derive(Debug)]
pub struct D {
    pub id: u64,
    pub uid: u64,
}
impl D {
    pub fn new(id: u64) -> D {
        let uid = NEXT_UID.with(|n| {
            let mut n = n.borrow_mut();
            *n += 1;
            *n
        });
        LIVE.with(|l| l.borrow_mut().insert(uid));
        D { id, uid }
    }
}
impl Drop for D {
    fn drop(&mut self) {
        let was_live = LIVE.with(|l| l.borrow_mut().remove(&self.uid));
        if !was_live {
            DOUBLE_DROP.with(|d| *d.borrow_mut() += 1);
        }
        callback_point(CB_DROP);
    }
}
impl Clone for D {
    fn clone(&self) -> D {
        callback_point(CB_CLONE);
        D::new(self.id)
    }
}
impl PartialEq for D {
    fn eq(&self, o: &D) -> bool {
        callback_point(CB_EQ);
        self.id == o.id
    }
}
impl Eq for D {}
impl core::hash::Hash for D {
    fn hash<H: core::hash::Hasher>(&self, h: &mut H) {
        h.write_u64(self.id)
    }
}
impl Elt for D {
    fn make(id: u64, _aux: u64, _stamp: u64) -> Self {
        D::new(id)
    }
    fn id(&self) -> u64 {
        self.id
    }
}
impl Elt for (D, D) {
    fn make(id: u64, aux: u64, _stamp: u64) -> Self {
        (D::new(id), D::new(aux))
    }
    fn id(&self) -> u64 {
        self.0.id
    }
    fn aux(&self) -> u64 {
        self.1.id
    }
}
impl Elt for (D, ()) {
    fn make(id: u64, _aux: u64, _stamp: u64) -> Self {
        (D::new(id), ())
    }
    fn id(&self) -> u64 {
        self.0.id
    }
}

// ----- allocation ledger (C03, C08, C12) -----
std::thread_local! {
    static BLOCKS: RefCell<std::collections::HashMap<usize, (usize, usize)>> = RefCell::new(Default::default());
    static ALLOC_ERR: RefCell<Option<&'static str>> = RefCell::new(None);
    static ALLOC_CALLS: RefCell<u64> = RefCell::new(0);
    static ALLOC_FAIL_AT: RefCell<i64> = RefCell::new(-1);
    static LAST_REFUSED: RefCell<Option<(usize, usize)>> = RefCell::new(None);
}
#[derive(Clone, Copy, Default)]
pub struct LedgerAlloc;
pub fn alloc_reset() {
    BLOCKS.with(|b| b.borrow_mut().clear());
    ALLOC_ERR.with(|e| *e.borrow_mut() = None);
    ALLOC_CALLS.with(|c| *c.borrow_mut() = 0);
    ALLOC_FAIL_AT.with(|c| *c.borrow_mut() = -1);
    LAST_REFUSED.with(|c| *c.borrow_mut() = None);
}
pub fn alloc_live_blocks() -> usize {
    BLOCKS.with(|b| b.borrow().len())
}
pub fn alloc_live_bytes() -> usize {
    BLOCKS.with(|b| b.borrow().values().map(|v| v.0).sum())
}
pub fn alloc_calls() -> u64 {
    ALLOC_CALLS.with(|c| *c.borrow())
}
pub fn alloc_error() -> Option<&'static str> {
    ALLOC_ERR.with(|e| *e.borrow())
}
/// refuse the k-th allocation request from now on (k = 0: the next one)
pub fn alloc_fail_at(k: i64) {
    ALLOC_FAIL_AT.with(|c| *c.borrow_mut() = k);
}
pub fn alloc_last_refused() -> Option<(usize, usize)> {
    LAST_REFUSED.with(|c| *c.borrow())
}
unsafe impl Allocator for LedgerAlloc {
    fn allocate(&self, layout: Layout) -> Result<NonNull<[u8]>, allocator_api2::alloc::AllocError> {
        ALLOC_CALLS.with(|c| *c.borrow_mut() += 1);
        if !(layout.align().is_power_of_two() && layout.size() <= isize::MAX as usize - (layout.align() - 1)) {
            ALLOC_ERR.with(|e| *e.borrow_mut() = Some("allocator was asked for an invalid layout"));
        }
        let refuse = ALLOC_FAIL_AT.with(|c| {
            let mut c = c.borrow_mut();
            if *c == 0 {
                *c = -1;
                true
            } else {
                if *c > 0 {
                    *c -= 1;
                }
                false
            }
        });
        if refuse {
            LAST_REFUSED.with(|c| *c.borrow_mut() = Some((layout.size(), layout.align())));
            return Err(allocator_api2::alloc::AllocError);
        }
        let p = unsafe { std::alloc::alloc(layout) };
        if p.is_null() {
            return Err(allocator_api2::alloc::AllocError);
        }
        BLOCKS.with(|b| b.borrow_mut().insert(p as usize, (layout.size(), layout.align())));
        Ok(NonNull::slice_from_raw_parts(unsafe { NonNull::new_unchecked(p) }, layout.size()))
    }
    unsafe fn deallocate(&self, ptr: NonNull<u8>, layout: Layout) {
        let rec = BLOCKS.with(|b| b.borrow_mut().remove(&(ptr.as_ptr() as usize)));
        match rec {
            None => ALLOC_ERR.with(|e| *e.borrow_mut() = Some("deallocate of a block that is not live (double free or foreign pointer)")),
            Some((sz, al)) => {
                if sz != layout.size() || al != layout.align() {
                    ALLOC_ERR.with(|e| *e.borrow_mut() = Some("deallocate with a layout different from the one allocated"));
                }
                std::alloc::dealloc(ptr.as_ptr(), Layout::from_size_align_unchecked(sz, al));
            }
        }
    }
}
