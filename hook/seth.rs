// ---------------------------------------------------------------------------
// HashSet obligations (C07): set algebra against mathematical sets for pairs (A, B) where A is
// an arbitrary Inv state and B is realised by an independent construction history; element
// operations insert/replace/take/get/get_or_insert/get_or_insert_with/remove/entry.
// ---------------------------------------------------------------------------
use crate::hash_set::HashSet;
use std::collections::BTreeSet;

pub type Set = HashSet<Key, IdBuild>;

fn mk_set<const N: usize>(st: &St<N>) -> Set {
    HashSet { map: HashMap { hash_builder: IdBuild { seed: 3 }, table: build_t::<(Key, ()), N>(st) } }
}
fn start_set<S: Src, const N: usize>(s: &mut S) -> Option<(Set, Ents)> {
    match draw_map_state::<S, N>(s)? {
        None => Some((HashSet::with_hasher(IdBuild { seed: 4 }), Vec::new())),
        Some(st) => Some((mk_set(&st), ents_of(&st).into_iter().map(|e| (e.0, 0, e.2)).collect())),
    }
}
/// a second set built by a history of inserts and removes (own layout, capacity, tombstones),
/// sharing many keys with `a`
fn history_set<S: Src>(s: &mut S, a: &Ents, max_ops: usize) -> (Set, BTreeSet<u64>) {
    let mut b: Set = if s.bool() { HashSet::with_hasher(IdBuild { seed: 9 }) } else { HashSet::with_capacity_and_hasher(s.below(40), IdBuild { seed: 7 }) };
    let mut mb = BTreeSet::new();
    let ops = s.below(max_ops + 1);
    for _ in 0..ops {
        let id = draw_key(s, a);
        if s.below(4) == 0 {
            b.remove(&pk(id));
            mb.remove(&id);
        } else {
            b.insert(Key { id, stamp: 0xB0B0 });
            mb.insert(id);
        }
    }
    (b, mb)
}
fn ids(m: &Ents) -> BTreeSet<u64> {
    m.iter().map(|e| e.0).collect()
}
/// drain an iterator of &Key checking each element once and size_hint bounds at every step
fn collect_checked<'a, I: Iterator<Item = &'a Key>>(mut it: I) -> Result<Vec<u64>, &'static str> {
    let mut out = Vec::new();
    let mut rest: Vec<u64> = Vec::new();
    let mut hints: Vec<(usize, Option<usize>)> = Vec::new();
    loop {
        hints.push(it.size_hint());
        match it.next() {
            Some(k) => rest.push(k.id),
            None => break,
        }
    }
    ensure!(it.next().is_none(), "set iterator keeps returning None after exhaustion");
    let total = rest.len();
    for (i, (lo, hi)) in hints.iter().enumerate() {
        let remaining = total - i;
        ensure!(*lo <= remaining, "size_hint lower bound does not exceed the true remaining count");
        ensure!(hi.map_or(true, |h| h >= remaining), "size_hint upper bound is not below the true remaining count");
    }
    out.extend(rest);
    out.sort();
    Ok(out)
}
fn sorted(s: &BTreeSet<u64>) -> Vec<u64> {
    s.iter().copied().collect()
}
fn set_ids(s: &Set) -> Vec<u64> {
    let mut v: Vec<u64> = s.iter().map(|k| k.id).collect();
    v.sort();
    v
}

pub fn ob_set_algebra<S: Src, const N: usize>(s: &mut S) -> Chk {
    let (mut a, m) = match start_set::<S, N>(s) {
        Some(x) => x,
        None => return Ok(()),
    };
    let ma = ids(&m);
    let (b, mb) = history_set(s, &m, 2 * N + 4);
    let uni: BTreeSet<u64> = ma.union(&mb).copied().collect();
    let int: BTreeSet<u64> = ma.intersection(&mb).copied().collect();
    let dif: BTreeSet<u64> = ma.difference(&mb).copied().collect();
    let rdif: BTreeSet<u64> = mb.difference(&ma).copied().collect();
    let sym: BTreeSet<u64> = ma.symmetric_difference(&mb).copied().collect();
    match s.below(14) {
        0 => {
            ensure!(collect_checked(a.union(&b))? == sorted(&uni), "union yields exactly the mathematical union, each element once");
            ensure!(collect_checked(b.union(&a))? == sorted(&uni), "union is symmetric in its operands");
        }
        1 => {
            ensure!(collect_checked(a.intersection(&b))? == sorted(&int), "intersection yields exactly the mathematical intersection");
            ensure!(collect_checked(b.intersection(&a))? == sorted(&int), "intersection with operands swapped");
        }
        2 => {
            ensure!(collect_checked(a.difference(&b))? == sorted(&dif), "difference yields exactly A minus B");
            ensure!(collect_checked(b.difference(&a))? == sorted(&rdif), "difference yields exactly B minus A");
        }
        3 => {
            ensure!(collect_checked(a.symmetric_difference(&b))? == sorted(&sym), "symmetric_difference yields exactly the elements in one set only");
        }
        4 => {
            ensure!(a.is_subset(&b) == ma.is_subset(&mb), "is_subset");
            ensure!(b.is_subset(&a) == mb.is_subset(&ma), "is_subset (swapped)");
            ensure!(a.is_superset(&b) == ma.is_superset(&mb), "is_superset");
            ensure!(b.is_superset(&a) == mb.is_superset(&ma), "is_superset (swapped)");
        }
        5 => {
            ensure!(a.is_disjoint(&b) == ma.is_disjoint(&mb), "is_disjoint");
            ensure!(b.is_disjoint(&a) == ma.is_disjoint(&mb), "is_disjoint (swapped)");
            ensure!((a == b) == (ma == mb) && (b == a) == (ma == mb), "== is set equality and symmetric");
        }
        6 => {
            ensure!(set_ids(&(&a | &b)) == sorted(&uni), "operator | is union");
            ensure!(set_ids(&(&a & &b)) == sorted(&int), "operator & is intersection");
        }
        7 => {
            ensure!(set_ids(&(&a ^ &b)) == sorted(&sym), "operator ^ is symmetric difference");
            ensure!(set_ids(&(&a - &b)) == sorted(&dif), "operator - is difference");
            ensure!(set_ids(&(&b - &a)) == sorted(&rdif), "operator - (swapped)");
        }
        8 => {
            a |= &b;
            ensure!(set_ids(&a) == sorted(&uni), "operator |= is union");
            sub!(check_set(&a));
        }
        9 => {
            a &= &b;
            ensure!(set_ids(&a) == sorted(&int), "operator &= is intersection");
            sub!(check_set(&a));
        }
        10 => {
            a ^= &b;
            ensure!(set_ids(&a) == sorted(&sym), "operator ^= is symmetric difference");
            sub!(check_set(&a));
        }
        11 => {
            a -= &b;
            ensure!(set_ids(&a) == sorted(&dif), "operator -= is difference");
            sub!(check_set(&a));
        }
        12 => {
            let mut b2 = b.clone();
            b2 -= &a;
            ensure!(set_ids(&b2) == sorted(&rdif), "operator -= (history-built left operand)");
            b2 ^= &a;
            let want: BTreeSet<u64> = rdif.symmetric_difference(&ma).copied().collect();
            ensure!(set_ids(&b2) == sorted(&want), "operator ^= (history-built left operand)");
            sub!(check_set(&b2));
        }
        _ => {
            let mut b2 = b.clone();
            b2.extend(a.iter());
            ensure!(set_ids(&b2) == sorted(&uni), "extend(&T) is union");
            let c: Set = a.iter().copied().chain(b.iter().copied()).collect();
            ensure!(set_ids(&c) == sorted(&uni), "from_iter is union of the inputs");
        }
    }
    Ok(())
}

fn check_set(s: &Set) -> Chk {
    let d = read_dyn(&s.map.table)?;
    ensure!(d.reach_all(), "Inv: every stored element is reachable by the probe sequence of its hash");
    let mut v = d.ents();
    v.dedup_by_key(|e| e.0);
    ensure!(v.len() == d.ents().len(), "set holds each element once");
    ensure!(s.len() == v.len(), "len() equals the number of stored elements");
    Ok(())
}

/// insert / replace / take / get / get_or_insert / get_or_insert_with / remove / contains / entry
pub fn ob_set_elem<S: Src, const N: usize>(s: &mut S) -> Chk {
    let (mut a, mut m) = match start_set::<S, N>(s) {
        Some(x) => x,
        None => return Ok(()),
    };
    let id = draw_key(s, &m);
    let want = model_get(&m, id);
    let probe = Key { id, stamp: STAMP_PROBE };
    match s.below(10) {
        0 => {
            ensure!(a.insert(probe) == want.is_none(), "HashSet::insert returns whether the value was absent");
            if want.is_none() {
                m.push((id, 0, STAMP_PROBE));
            }
        }
        1 => {
            let r = a.replace(probe);
            ensure!(r.map(|k| (k.id, k.stamp)) == want.map(|i| (m[i].0, m[i].2)), "HashSet::replace returns the old stored value");
            match want {
                Some(i) => m[i].2 = STAMP_PROBE, // the new value is stored
                None => m.push((id, 0, STAMP_PROBE)),
            }
        }
        2 => {
            let r = a.take(&QKey(id));
            ensure!(r.map(|k| (k.id, k.stamp)) == want.map(|i| (m[i].0, m[i].2)), "HashSet::take returns the stored value");
            if let Some(i) = want {
                m.remove(i);
            }
        }
        3 => {
            let r = a.get(&QKey(id)).map(|k| (k.id, k.stamp));
            ensure!(r == want.map(|i| (m[i].0, m[i].2)), "HashSet::get returns the stored value");
            ensure!(a.contains(&probe) == want.is_some(), "HashSet::contains");
        }
        4 => {
            let r = *a.get_or_insert(probe);
            match want {
                Some(i) => ensure!(r.stamp == m[i].2, "HashSet::get_or_insert keeps the old stored value"),
                None => {
                    ensure!(r.stamp == STAMP_PROBE, "HashSet::get_or_insert stores the value when absent");
                    m.push((id, 0, STAMP_PROBE));
                }
            }
        }
        5 => {
            let r = *a.get_or_insert_with(&QKey(id), |q| Key { id: q.0, stamp: STAMP_FROM_Q });
            match want {
                Some(i) => ensure!(r.stamp == m[i].2, "HashSet::get_or_insert_with keeps the old stored value"),
                None => {
                    ensure!(r.stamp == STAMP_FROM_Q && r.id == id, "HashSet::get_or_insert_with stores the constructed value");
                    m.push((id, 0, STAMP_FROM_Q));
                }
            }
        }
        6 => {
            // a constructed value that is not equivalent to the probe must be refused (panic)
            if want.is_none() {
                let before = set_ids(&a);
                let r = std::panic::catch_unwind(std::panic::AssertUnwindSafe(|| {
                    let _ = a.get_or_insert_with(&QKey(id), |q| Key { id: q.0 ^ 0x100, stamp: 1 });
                }));
                ensure!(r.is_err(), "HashSet::get_or_insert_with refuses a value that is not equivalent to the probe");
                ensure!(set_ids(&a) == before, "HashSet::get_or_insert_with: nothing stored after the refusal");
            }
        }
        7 => {
            ensure!(a.remove(&probe) == want.is_some(), "HashSet::remove returns whether the value was present");
            if let Some(i) = want {
                m.remove(i);
            }
        }
        8 => {
            use crate::hash_set::Entry as SEntry;
            let e = a.entry(probe);
            ensure!(matches!(e, SEntry::Occupied(_)) == want.is_some(), "HashSet::entry is Occupied exactly when the value is present");
            ensure!(e.get().id == id, "set Entry::get");
            let o = e.insert();
            ensure!(o.get().id == id, "set Entry::insert returns the occupied entry");
            if want.is_none() {
                m.push((id, 0, STAMP_PROBE));
            }
        }
        _ => {
            use crate::hash_set::Entry as SEntry;
            match a.entry(probe) {
                SEntry::Occupied(o) => {
                    let i = want.unwrap();
                    if s.bool() {
                        let k = o.remove();
                        ensure!(k.stamp == m[i].2, "set OccupiedEntry::remove returns the stored value");
                        m.remove(i);
                    }
                }
                SEntry::Vacant(v) => {
                    if s.bool() {
                        ensure!(v.into_value().stamp == STAMP_PROBE, "set VacantEntry::into_value hands the value back");
                    } else {
                        v.insert();
                        m.push((id, 0, STAMP_PROBE));
                    }
                }
            }
        }
    }
    ensure!(a.len() == m.len(), "len() equals the number of stored elements");
    check_table(&a.map.table, &m)
}
