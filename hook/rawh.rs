// ---------------------------------------------------------------------------
// Hoare obligations for the raw table core:  {Inv(st) && pre}  real function  {Inv(st') && post}
// from an ARBITRARY abstract state st with N buckets (bounded in N only).
// Element type u64, hasher `hash_of` (see state.rs).
// ---------------------------------------------------------------------------

#[inline]
fn hasher(v: &u64) -> u64 {
    hash_of(*v)
}

/// find: sound and complete w.r.t. the abstract state; table untouched.
pub fn ob_find<S: Src, const N: usize>(s: &mut S) -> Chk {
    let st = match draw_state::<S, N>(s, true) {
        Some(st) => st,
        None => return Ok(()),
    };
    let v = s.u64();
    let t = build(&st);
    reach!(st.deleted() > 0, "state with a tombstone");
    reach!(st.growth_left() == 0, "state at full load");
    reach!(st.count(v) > 0, "probe present");
    reach!(st.count(v) == 0 && st.items() > 0, "probe absent from a non-empty table");
    let r = t.find(hash_of(v), |x| *x == v);
    match r {
        Some(b) => {
            let i = unsafe { t.bucket_index(&b) };
            ensure!(i < N, "find: returned bucket in range");
            ensure!(st.kind[i] == K_FULL && st.val[i] == v, "find: returned bucket holds an element equal to the probe");
        }
        None => ensure!(st.count(v) == 0, "find: None only when no stored element equals the probe"),
    }
    let st2 = read_state::<N>(&t)?;
    ensure!(st2.same_except(&st, N), "find: table unchanged");
    Ok(())
}

/// find with an arbitrary (unlawful, per-bucket) equality answer and an unrelated hash (C05):
/// only safety, termination and "the answer was given by eq".
pub fn ob_find_unlawful<S: Src, const N: usize>(s: &mut S) -> Chk {
    let st = match draw_state::<S, N>(s, false) {
        Some(st) => st,
        None => return Ok(()),
    };
    let hash = s.u64();
    let mut ans = [false; N];
    for_upto!(i, N, {
        ans[i] = s.bool();
    });
    let t = build(&st);
    let r = unsafe { t.table.find_inner(hash, &mut |i| i < N && ans[i]) };
    if let Some(i) = r {
        ensure!(i < N && st.kind[i] == K_FULL, "find_inner: only full buckets are offered to eq and returned");
        ensure!(ans[i], "find_inner: returned bucket was accepted by eq");
    }
    Ok(())
}

/// find_insert_slot: a special (EMPTY/DELETED) bucket in range such that an element with this
/// hash placed there is reachable by its probe sequence.
pub fn ob_find_insert_slot<S: Src, const N: usize>(s: &mut S) -> Chk {
    let st = match draw_state::<S, N>(s, false) {
        Some(st) => st,
        None => return Ok(()),
    };
    let hash = s.u64();
    let t = build(&st);
    reach!(st.growth_left() == 0 && st.deleted() > 0, "full load with tombstones");
    let slot = unsafe { t.table.find_insert_slot(hash) };
    let i = slot.index;
    ensure!(i < N, "find_insert_slot: index in range");
    ensure!(st.kind[i] != K_FULL, "find_insert_slot: bucket is EMPTY or DELETED");
    ensure!(st.reach_one(i, hash), "find_insert_slot: no group with an EMPTY byte is probed before the slot's group");
    Ok(())
}

/// find_or_find_insert_slot_inner: agrees with find on presence, and with find_insert_slot's
/// contract on the slot offered for an absent element.
pub fn ob_find_or_insert_slot<S: Src, const N: usize>(s: &mut S) -> Chk {
    let st = match draw_state::<S, N>(s, true) {
        Some(st) => st,
        None => return Ok(()),
    };
    let v = s.u64();
    let t = build(&st);
    reach!(st.count(v) > 0, "present");
    reach!(st.count(v) == 0 && st.deleted() > 0, "absent, tombstones");
    let r = unsafe {
        t.table
            .find_or_find_insert_slot_inner(hash_of(v), &mut |i| *t.bucket(i).as_ref() == v)
    };
    match r {
        Ok(i) => {
            ensure!(i < N && st.kind[i] == K_FULL && st.val[i] == v, "find_or_find_insert_slot: Ok bucket holds the element");
        }
        Err(slot) => {
            let i = slot.index;
            ensure!(st.count(v) == 0, "find_or_find_insert_slot: Err only when the element is absent");
            ensure!(i < N && st.kind[i] != K_FULL, "find_or_find_insert_slot: slot is a special bucket in range");
            ensure!(st.reach_one(i, hash_of(v)), "find_or_find_insert_slot: slot reachable by the probe sequence");
        }
    }
    Ok(())
}

/// insert_in_slot at any admissible slot: wf kept, reachability kept, only that bucket changes.
pub fn ob_insert_in_slot<S: Src, const N: usize>(s: &mut S) -> Chk {
    let st = match draw_state::<S, N>(s, true) {
        Some(st) => st,
        None => return Ok(()),
    };
    let v = s.u64();
    let i = s.below(N);
    req!(s, st.kind[i] != K_FULL && st.reach_one(i, hash_of(v)));
    // load-factor precondition of the unsafe fn: an EMPTY slot may be consumed only if growth is left
    req!(s, st.kind[i] == K_DELETED || st.growth_left() > 0);
    let mut t = build(&st);
    reach!(st.kind[i] == K_DELETED && st.growth_left() == 0, "tombstone reuse at full load");
    let b = unsafe { t.insert_in_slot(hash_of(v), InsertSlot { index: i }, v) };
    ensure!(unsafe { t.bucket_index(&b) } == i, "insert_in_slot: returns the bucket of the slot");
    let st2 = read_state::<N>(&t)?;
    ensure!(st2.kind[i] == K_FULL && st2.val[i] == v, "insert_in_slot: slot now holds the value");
    ensure!(st2.same_except(&st, i), "insert_in_slot: no other bucket changes");
    ensure!(st2.reach_all(), "insert_in_slot: every element stays reachable");
    Ok(())
}

/// remove (erase + read): returns the element and its slot; DELETED exactly when a full
/// window of non-EMPTY buckets contains the slot, EMPTY (and growth_left + 1) otherwise.
pub fn ob_remove<S: Src, const N: usize>(s: &mut S) -> Chk {
    let st = match draw_state::<S, N>(s, true) {
        Some(st) => st,
        None => return Ok(()),
    };
    let i = s.below(N);
    req!(s, st.kind[i] == K_FULL);
    let mut t = build(&st);
    let del = spec_erase_writes_deleted(&st, i);
    reach!(del || N <= Group::WIDTH, "erase must leave a tombstone");
    reach!(!del, "erase may restore EMPTY");
    let (v, slot) = unsafe { t.remove(t.bucket(i)) };
    ensure!(v == st.val[i], "remove: returns the stored element");
    ensure!(slot.index == i, "remove: returns the freed slot");
    let st2 = read_state::<N>(&t)?;
    ensure!(st2.same_except(&st, i), "remove: no other bucket changes");
    ensure!(st2.kind[i] == (if del { K_DELETED } else { K_EMPTY }), "erase: DELETED iff a whole window of non-EMPTY buckets contains the slot");
    ensure!(st2.reach_all(), "erase: every remaining element stays reachable");
    Ok(())
}

/// RawTable::insert from any Inv state: the new element is added (multiset view), everything
/// stays reachable, and no reallocation happens while spare capacity or a tombstone is usable.
pub fn ob_insert<S: Src, const N: usize, const N2: usize>(s: &mut S) -> Chk {
    let st = match draw_state::<S, N>(s, true) {
        Some(st) => st,
        None => return Ok(()),
    };
    let v = s.u64();
    // growth / in-place rehash are separate obligations (ob_resize, ob_rehash_in_place); here
    // the branch of insert that must not touch the allocation
    req!(s, st.growth_left() > 0 || st.deleted() > 0);
    let mut t = build(&st);
    let ctrl0 = t.table.ctrl.as_ptr();
    reach!(st.growth_left() == 0 && st.deleted() == 0, "full load, must grow");
    reach!(st.growth_left() == 0 && st.deleted() > 0 && 2 * (st.items() + 1) <= St::<N>::CAP, "full load, in-place rehash");
    let b = t.insert(hash_of(v), v, hasher);
    ensure!(unsafe { *b.as_ref() } == v, "insert: returned bucket holds the value");
    if t.buckets() == N {
        let st2 = read_state::<N>(&t)?;
        ensure!(st2.items() == st.items() + 1 && st2.count(v) == st.count(v) + 1, "insert: exactly one more copy of the value");
        ensure!(st.same_view_plus(&st2, v), "insert: every other element kept");
        ensure!(st2.reach_all(), "insert: every element reachable");
        ensure!(t.table.ctrl.as_ptr() == ctrl0, "insert: same allocation when the bucket count is unchanged");
    } else {
        ensure!(t.buckets() == N2, "insert: grows to the next size only");
        ensure!(st.growth_left() == 0, "insert: no growth while spare capacity is left");
        let st2 = read_state::<N2>(&t)?;
        ensure!(st2.items() == st.items() + 1 && st2.count(v) == st.count(v) + 1, "insert: exactly one more copy of the value");
        ensure!(st.same_view_plus(&st2, v), "insert: every other element kept");
        ensure!(st2.deleted() == 0, "resize: no tombstones in the new table");
        ensure!(st2.reach_all(), "insert: every element reachable");
    }
    Ok(())
}

/// Raw iteration: exactly the full buckets, in ascending bucket order, exact size_hint at
/// every step, None after exhaustion (twice).
pub fn ob_iter<S: Src, const N: usize>(s: &mut S) -> Chk {
    let st = match draw_state::<S, N>(s, false) {
        Some(st) => st,
        None => return Ok(()),
    };
    let t = build(&st);
    reach!(st.kind[0] == K_FULL && st.kind[N - 1] == K_FULL, "first and last bucket occupied");
    reach!(st.items() == 0, "empty allocated table");
    let mut it = unsafe { t.iter() };
    let mut remaining = st.items();
    for_upto!(i, N, {
        if st.kind[i] == K_FULL {
            ensure!(it.size_hint() == (remaining, Some(remaining)) && it.len() == remaining, "RawIter::size_hint exact");
            match it.next() {
                Some(b) => ensure!(unsafe { t.bucket_index(&b) } == i, "RawIter::next: full buckets in ascending order, each once"),
                None => ensure!(false, "RawIter::next: ended early"),
            }
            remaining -= 1;
        }
    });
    ensure!(it.size_hint() == (0, Some(0)), "RawIter::size_hint exact at the end");
    ensure!(it.next().is_none() && it.next().is_none(), "RawIter::next: None after exhaustion");
    Ok(())
}

/// resize_inner (through RawTable::resize): every element moved into a fresh table of the
/// requested capacity, nothing lost or duplicated, everything reachable, no tombstones.
pub fn ob_resize<S: Src, const N: usize, const N2: usize>(s: &mut S) -> Chk {
    let st = match draw_state::<S, N>(s, false) {
        Some(st) => st,
        None => return Ok(()),
    };
    let mut t = build(&st);
    let r = unsafe { t.resize(St::<N2>::CAP, hasher, Fallibility::Fallible) };
    ensure!(r.is_ok(), "resize: succeeds when the allocator does");
    let st2 = read_state::<N2>(&t)?;
    ensure!(st.same_view(&st2), "resize: same multiset of elements");
    ensure!(st2.deleted() == 0, "resize: no tombstones in the new table");
    ensure!(st2.reach_all(), "resize: every element reachable in the new table");
    Ok(())
}

/// rehash_in_place: same elements, no tombstones left, everything reachable, same allocation.
pub fn ob_rehash_in_place<S: Src, const N: usize>(s: &mut S) -> Chk {
    let st = match draw_state::<S, N>(s, false) {
        Some(st) => st,
        None => return Ok(()),
    };
    let mut t = build(&st);
    let ctrl0 = t.table.ctrl.as_ptr();
    reach!(st.deleted() > 0 && st.items() > 1, "tombstones and several elements");
    unsafe {
        t.table.rehash_in_place(
            &|table, index| hasher(table.bucket::<u64>(index).as_ref()),
            core::mem::size_of::<u64>(),
            None,
        );
    }
    ensure!(t.table.ctrl.as_ptr() == ctrl0, "rehash_in_place: same allocation");
    let st2 = read_state::<N>(&t)?;
    ensure!(st.same_view(&st2), "rehash_in_place: same multiset of elements");
    ensure!(st2.deleted() == 0, "rehash_in_place: no tombstones left");
    ensure!(st2.reach_all(), "rehash_in_place: every element reachable");
    Ok(())
}


/// reserve(additional): nothing happens while growth_left suffices; otherwise tombstones are
/// reclaimed IN PLACE exactly when items + additional <= capacity / 2, else the table grows to
/// capacity_to_buckets(max(items + additional, capacity + 1)); contents kept, room guaranteed.
pub fn ob_reserve<S: Src, const N: usize>(s: &mut S) -> Chk {
    let st = match draw_state::<S, N>(s, true) {
        Some(st) => st,
        None => return Ok(()),
    };
    let add = s.below(2 * N + 2);
    let mut t = build(&st);
    let ctrl0 = t.table.ctrl.as_ptr();
    let cap = St::<N>::CAP;
    let (items, gl) = (st.items(), st.growth_left());
    reach!(add > gl && items + add <= cap / 2, "in-place reclamation");
    reach!(add > gl && items + add > cap / 2, "growth");
    t.reserve(add, hasher);
    ensure!(t.table.growth_left >= add, "reserve(n): room for n more elements (capacity() >= len() + n)");
    if add <= gl {
        ensure!(t.buckets() == N && t.table.ctrl.as_ptr() == ctrl0, "reserve within growth_left touches nothing");
        let st2 = read_state::<N>(&t)?;
        ensure!(st2.same_except(&st, N), "reserve within growth_left leaves every bucket as it was");
    } else if items + add <= cap / 2 {
        ensure!(t.buckets() == N && t.table.ctrl.as_ptr() == ctrl0, "reserve reclaims tombstones in place when len + additional <= capacity / 2");
        let st2 = read_state::<N>(&t)?;
        ensure!(st.same_view(&st2) && st2.deleted() == 0 && st2.reach_all(), "in-place reclamation keeps every element reachable and leaves no tombstone");
    } else {
        let want = core::cmp::max(items + add, cap + 1);
        let nb = capacity_to_buckets(want, TableLayout::new::<u64>());
        ensure!(nb == Some(t.buckets()), "reserve grows to capacity_to_buckets(max(len + additional, capacity + 1)) buckets, no more");
        ensure!(t.table.items == items, "growth keeps the element count");
    }
    Ok(())
}

/// RawTable::insert at full load where the slot found first is an EMPTY bucket: reserve(1) runs
/// (in place or growing) and the slot is searched AGAIN in the rehashed table.
pub fn ob_insert_full_load<S: Src, const N: usize, const N2: usize>(s: &mut S) -> Chk {
    let mut st = match draw_state::<S, N>(s, true) {
        Some(st) => st,
        None => return Ok(()),
    };
    let mut directed: Option<u64> = None;
    if s.native() {
        let w = Group::WIDTH;
        if N >= 4 * w && s.bool() {
            // directed profile: the probe window of home h is completely full and contains one
            // element e whose own home window (h - W) holds only tombstones; an in-place rehash moves e
            // home and opens an EMPTY hole in window(h), in front of whatever lies behind it
            st = St::<N> { kind: [K_EMPTY; N], val: [0; N] };
            let h = s.below(N);
            let h2 = (h + N - w) & (N - 1);
            let hi = s.u64() & !0xFFu64;
            for_upto!(i, w, {
                // fillers with home h2 occupy window(h2)
                let v = (h2 as u64) | hi | ((i as u64) << 12);
                let slot = spec_first_special(&st, h2);
                st.kind[slot] = K_FULL;
                st.val[slot] = v;
            });
            // e: home h2, displaced into window(h)
            let e = (h2 as u64) | hi | (0x77 << 12);
            let slot = spec_first_special(&st, h2);
            st.kind[slot] = K_FULL;
            st.val[slot] = e;
            // the rest of window(h): elements with home h
            for_upto!(i, w - 1, {
                let v = (h as u64) | hi | ((i as u64 + 0x100) << 12);
                let slot = spec_first_special(&st, h);
                st.kind[slot] = K_FULL;
                st.val[slot] = v;
            });
            // the fillers are removed again: tombstones
            for_upto!(i, N, {
                if st.kind[i] == K_FULL && (hash_of(st.val[i]) as usize) & (N - 1) == h2 && st.val[i] != e {
                    st.kind[i] = K_DELETED;
                }
            });
            // saturate with tombstones, leaving the EMPTY buckets at the start of window(h + W)
            for_upto!(i, N, {
                let idx = (h + w + N - 1 - i) & (N - 1);
                if st.kind[idx] == K_EMPTY && st.items() + st.deleted() < St::<N>::CAP {
                    st.kind[idx] = K_DELETED;
                }
            });
            directed = Some((h as u64) | (s.u64() & !0xFFu64));
        } else if N >= w {
            // saturate: turn EMPTY buckets into tombstones until growth_left == 0 (F2 is unaffected by
            // EMPTY -> DELETED on tables of at least one group; smaller tables hold no tombstones)
            for_upto!(i, N, {
                if st.kind[i] == K_EMPTY && st.items() + st.deleted() < St::<N>::CAP {
                    st.kind[i] = K_DELETED;
                }
            });
        }
    }
    req!(s, st.accounting_ok() && st.growth_left() == 0 && st.reach_all());
    let v = match directed {
        Some(v) => v,
        None => s.u64(),
    };
    reach!(directed.is_some(), "directed full-window profile");
    let first = spec_first_special(&st, (hash_of(v) as usize) & (N - 1));
    req!(s, first != usize::MAX && st.kind[first] == K_EMPTY);
    let mut t = build(&st);
    let b = t.insert(hash_of(v), v, hasher);
    ensure!(unsafe { *b.as_ref() } == v, "insert: returned bucket holds the value");
    if t.buckets() == N {
        let st2 = read_state::<N>(&t)?;
        ensure!(st.same_view_plus(&st2, v), "insert at full load (in-place rehash): one more copy, nothing lost");
        ensure!(st2.reach_all(), "insert at full load (in-place rehash): every element, the new one included, is reachable");
    } else {
        ensure!(t.buckets() == N2, "insert at full load grows to the next size only");
        let st2 = read_state::<N2>(&t)?;
        ensure!(st.same_view_plus(&st2, v), "insert at full load (growth): one more copy, nothing lost");
        ensure!(st2.reach_all(), "insert at full load (growth): every element reachable");
    }
    Ok(())
}
