// ---------------------------------------------------------------------------
// Hoare obligations for the raw table core:  {Inv(st) && pre}  real function  {Inv(st') && post}
// from an ARBITRARY abstract state st with N buckets (bounded in N only).
// Element type u64, hasher `hash_of` (see state.rs).
// ---------------------------------------------------------------------------

#[inline]
fn hasher(v: &u64) -> u64 {
    hash_of(*v)
}

/// find: sound and complete w.r.t. the abstract state; table untouched.
pub fn ob_find<S: Src, const N: usize>(s: &mut S) -> Chk {
    let st = match draw_state::<S, N>(s, true) {
        Some(st) => st,
        None => return Ok(()),
    };
    let v = s.u64();
    let t = build(&st);
    reach!(st.deleted() > 0, "state with a tombstone");
    reach!(st.growth_left() == 0, "state at full load");
    reach!(st.count(v) > 0, "probe present");
    reach!(st.count(v) == 0 && st.items() > 0, "probe absent from a non-empty table");
    let r = t.find(hash_of(v), |x| *x == v);
    match r {
        Some(b) => {
            let i = unsafe { t.bucket_index(&b) };
            ensure!(i < N, "find: returned bucket in range");
            ensure!(st.kind[i] == K_FULL && st.val[i] == v, "find: returned bucket holds an element equal to the probe");
        }
        None => ensure!(st.count(v) == 0, "find: None only when no stored element equals the probe"),
    }
    let st2 = read_state::<N>(&t)?;
    ensure!(st2.same_except(&st, N), "find: table unchanged");
    Ok(())
}

/// find with an arbitrary (unlawful, per-bucket) equality answer and an unrelated hash (C05):
/// only safety, termination and "the answer was given by eq".
pub fn ob_find_unlawful<S: Src, const N: usize>(s: &mut S) -> Chk {
    let st = match draw_state::<S, N>(s, false) {
        Some(st) => st,
        None => return Ok(()),
    };
    let hash = s.u64();
    let mut ans = [false; N];
    for_upto!(i, N, {
        ans[i] = s.bool();
    });
    let t = build(&st);
    let r = unsafe { t.table.find_inner(hash, &mut |i| i < N && ans[i]) };
    if let Some(i) = r {
        ensure!(i < N && st.kind[i] == K_FULL, "find_inner: only full buckets are offered to eq and returned");
        ensure!(ans[i], "find_inner: returned bucket was accepted by eq");
    }
    Ok(())
}

/// find_insert_slot: a special (EMPTY/DELETED) bucket in range such that an element with this
/// hash placed there is reachable by its probe sequence.
pub fn ob_find_insert_slot<S: Src, const N: usize>(s: &mut S) -> Chk {
    let st = match draw_state::<S, N>(s, false) {
        Some(st) => st,
        None => return Ok(()),
    };
    let hash = s.u64();
    let t = build(&st);
    reach!(st.growth_left() == 0 && st.deleted() > 0, "full load with tombstones");
    let slot = unsafe { t.table.find_insert_slot(hash) };
    let i = slot.index;
    ensure!(i < N, "find_insert_slot: index in range");
    ensure!(st.kind[i] != K_FULL, "find_insert_slot: bucket is EMPTY or DELETED");
    ensure!(st.reach_one(i, hash), "find_insert_slot: no group with an EMPTY byte is probed before the slot's group");
    Ok(())
}

/// find_or_find_insert_slot_inner: agrees with find on presence, and with find_insert_slot's
/// contract on the slot offered for an absent element.
pub fn ob_find_or_insert_slot<S: Src, const N: usize>(s: &mut S) -> Chk {
    let st = match draw_state::<S, N>(s, true) {
        Some(st) => st,
        None => return Ok(()),
    };
    let v = s.u64();
    let t = build(&st);
    reach!(st.count(v) > 0, "present");
    reach!(st.count(v) == 0 && st.deleted() > 0, "absent, tombstones");
    let r = unsafe {
        t.table
            .find_or_find_insert_slot_inner(hash_of(v), &mut |i| *t.bucket(i).as_ref() == v)
    };
    match r {
        Ok(i) => {
            ensure!(i < N && st.kind[i] == K_FULL && st.val[i] == v, "find_or_find_insert_slot: Ok bucket holds the element");
        }
        Err(slot) => {
            let i = slot.index;
            ensure!(st.count(v) == 0, "find_or_find_insert_slot: Err only when the element is absent");
            ensure!(i < N && st.kind[i] != K_FULL, "find_or_find_insert_slot: slot is a special bucket in range");
            ensure!(st.reach_one(i, hash_of(v)), "find_or_find_insert_slot: slot reachable by the probe sequence");
        }
    }
    Ok(())
}

/// insert_in_slot at any admissible slot: wf kept, reachability kept, only that bucket changes.
pub fn ob_insert_in_slot<S: Src, const N: usize>(s: &mut S) -> Chk {
    let st = match draw_state::<S, N>(s, true) {
        Some(st) => st,
        None => return Ok(()),
    };
    let v = s.u64();
    let i = s.below(N);
    req!(s, st.kind[i] != K_FULL && st.reach_one(i, hash_of(v)));
    // load-factor precondition of the unsafe fn: an EMPTY slot may be consumed only if growth is left
    req!(s, st.kind[i] == K_DELETED || st.growth_left() > 0);
    let mut t = build(&st);
    reach!(st.kind[i] == K_DELETED && st.growth_left() == 0, "tombstone reuse at full load");
    let b = unsafe { t.insert_in_slot(hash_of(v), InsertSlot { index: i }, v) };
    ensure!(unsafe { t.bucket_index(&b) } == i, "insert_in_slot: returns the bucket of the slot");
    let st2 = read_state::<N>(&t)?;
    ensure!(st2.kind[i] == K_FULL && st2.val[i] == v, "insert_in_slot: slot now holds the value");
    ensure!(st2.same_except(&st, i), "insert_in_slot: no other bucket changes");
    ensure!(st2.reach_all(), "insert_in_slot: every element stays reachable");
    Ok(())
}

/// remove (erase + read): returns the element and its slot; DELETED exactly when a full
/// window of non-EMPTY buckets contains the slot, EMPTY (and growth_left + 1) otherwise.
pub fn ob_remove<S: Src, const N: usize>(s: &mut S) -> Chk {
    let st = match draw_state::<S, N>(s, true) {
        Some(st) => st,
        None => return Ok(()),
    };
    let i = s.below(N);
    req!(s, st.kind[i] == K_FULL);
    let mut t = build(&st);
    let del = spec_erase_writes_deleted(&st, i);
    reach!(del || N <= Group::WIDTH, "erase must leave a tombstone");
    reach!(!del, "erase may restore EMPTY");
    let (v, slot) = unsafe { t.remove(t.bucket(i)) };
    ensure!(v == st.val[i], "remove: returns the stored element");
    ensure!(slot.index == i, "remove: returns the freed slot");
    let st2 = read_state::<N>(&t)?;
    ensure!(st2.same_except(&st, i), "remove: no other bucket changes");
    ensure!(st2.kind[i] == (if del { K_DELETED } else { K_EMPTY }), "erase: DELETED iff a whole window of non-EMPTY buckets contains the slot");
    ensure!(st2.reach_all(), "erase: every remaining element stays reachable");
    Ok(())
}

/// RawTable::insert from any Inv state: the new element is added (multiset view), everything
/// stays reachable, and no reallocation happens while spare capacity or a tombstone is usable.
pub fn ob_insert<S: Src, const N: usize, const N2: usize>(s: &mut S) -> Chk {
    let st = match draw_state::<S, N>(s, true) {
        Some(st) => st,
        None => return Ok(()),
    };
    let v = s.u64();
    // growth / in-place rehash are separate obligations (ob_resize, ob_rehash_in_place); here
    // the branch of insert that must not touch the allocation
    req!(s, st.growth_left() > 0 || st.deleted() > 0);
    let mut t = build(&st);
    let ctrl0 = t.table.ctrl.as_ptr();
    reach!(st.growth_left() == 0 && st.deleted() == 0, "full load, must grow");
    reach!(st.growth_left() == 0 && st.deleted() > 0 && 2 * (st.items() + 1) <= St::<N>::CAP, "full load, in-place rehash");
    let b = t.insert(hash_of(v), v, hasher);
    ensure!(unsafe { *b.as_ref() } == v, "insert: returned bucket holds the value");
    if t.buckets() == N {
        let st2 = read_state::<N>(&t)?;
        ensure!(st2.items() == st.items() + 1 && st2.count(v) == st.count(v) + 1, "insert: exactly one more copy of the value");
        ensure!(st.same_view_plus(&st2, v), "insert: every other element kept");
        ensure!(st2.reach_all(), "insert: every element reachable");
        ensure!(t.table.ctrl.as_ptr() == ctrl0, "insert: same allocation when the bucket count is unchanged");
    } else {
        ensure!(t.buckets() == N2, "insert: grows to the next size only");
        ensure!(st.growth_left() == 0, "insert: no growth while spare capacity is left");
        let st2 = read_state::<N2>(&t)?;
        ensure!(st2.items() == st.items() + 1 && st2.count(v) == st.count(v) + 1, "insert: exactly one more copy of the value");
        ensure!(st.same_view_plus(&st2, v), "insert: every other element kept");
        ensure!(st2.deleted() == 0, "resize: no tombstones in the new table");
        ensure!(st2.reach_all(), "insert: every element reachable");
    }
    Ok(())
}

/// Raw iteration: exactly the full buckets, in ascending bucket order, exact size_hint at
/// every step, None after exhaustion (twice).
pub fn ob_iter<S: Src, const N: usize>(s: &mut S) -> Chk {
    let st = match draw_state::<S, N>(s, false) {
        Some(st) => st,
        None => return Ok(()),
    };
    let t = build(&st);
    reach!(st.kind[0] == K_FULL && st.kind[N - 1] == K_FULL, "first and last bucket occupied");
    reach!(st.items() == 0, "empty allocated table");
    let mut it = unsafe { t.iter() };
    let mut remaining = st.items();
    for_upto!(i, N, {
        if st.kind[i] == K_FULL {
            ensure!(it.size_hint() == (remaining, Some(remaining)) && it.len() == remaining, "RawIter::size_hint exact");
            match it.next() {
                Some(b) => ensure!(unsafe { t.bucket_index(&b) } == i, "RawIter::next: full buckets in ascending order, each once"),
                None => ensure!(false, "RawIter::next: ended early"),
            }
            remaining -= 1;
        }
    });
    ensure!(it.size_hint() == (0, Some(0)), "RawIter::size_hint exact at the end");
    ensure!(it.next().is_none() && it.next().is_none(), "RawIter::next: None after exhaustion");
    Ok(())
}

/// resize_inner (through RawTable::resize): every element moved into a fresh table of the
/// requested capacity, nothing lost or duplicated, everything reachable, no tombstones.
pub fn ob_resize<S: Src, const N: usize, const N2: usize>(s: &mut S) -> Chk {
    let st = match draw_state::<S, N>(s, false) {
        Some(st) => st,
        None => return Ok(()),
    };
    let mut t = build(&st);
    let r = unsafe { t.resize(St::<N2>::CAP, hasher, Fallibility::Fallible) };
    ensure!(r.is_ok(), "resize: succeeds when the allocator does");
    let st2 = read_state::<N2>(&t)?;
    ensure!(st.same_view(&st2), "resize: same multiset of elements");
    ensure!(st2.deleted() == 0, "resize: no tombstones in the new table");
    ensure!(st2.reach_all(), "resize: every element reachable in the new table");
    Ok(())
}

/// rehash_in_place: same elements, no tombstones left, everything reachable, same allocation.
pub fn ob_rehash_in_place<S: Src, const N: usize>(s: &mut S) -> Chk {
    let st = match draw_state::<S, N>(s, false) {
        Some(st) => st,
        None => return Ok(()),
    };
    let mut t = build(&st);
    let ctrl0 = t.table.ctrl.as_ptr();
    reach!(st.deleted() > 0 && st.items() > 1, "tombstones and several elements");
    unsafe {
        t.table.rehash_in_place(
            &|table, index| hasher(table.bucket::<u64>(index).as_ref()),
            core::mem::size_of::<u64>(),
            None,
        );
    }
    ensure!(t.table.ctrl.as_ptr() == ctrl0, "rehash_in_place: same allocation");
    let st2 = read_state::<N>(&t)?;
    ensure!(st.same_view(&st2), "rehash_in_place: same multiset of elements");
    ensure!(st2.deleted() == 0, "rehash_in_place: no tombstones left");
    ensure!(st2.reach_all(), "rehash_in_place: every element reachable");
    Ok(())
}


/// reserve(additional): nothing happens while growth_left suffices; otherwise tombstones are
/// reclaimed IN PLACE exactly when items + additional <= capacity / 2, else the table grows to
/// capacity_to_buckets(max(items + additional, capacity + 1)); contents kept, room guaranteed.
pub fn ob_reserve<S: Src, const N: usize>(s: &mut S) -> Chk {
    let st = match draw_state::<S, N>(s, true) {
        Some(st) => st,
        None => return Ok(()),
    };
    let add = s.below(2 * N + 2);
    let mut t = build(&st);
    let ctrl0 = t.table.ctrl.as_ptr();
    let cap = St::<N>::CAP;
    let (items, gl) = (st.items(), st.growth_left());
    reach!(add > gl && items + add <= cap / 2, "in-place reclamation");
    reach!(add > gl && items + add > cap / 2, "growth");
    t.reserve(add, hasher);
    ensure!(t.table.growth_left >= add, "reserve(n): room for n more elements (capacity() >= len() + n)");
    if add <= gl {
        ensure!(t.buckets() == N && t.table.ctrl.as_ptr() == ctrl0, "reserve within growth_left touches nothing");
        let st2 = read_state::<N>(&t)?;
        ensure!(st2.same_except(&st, N), "reserve within growth_left leaves every bucket as it was");
    } else if items + add <= cap / 2 {
        ensure!(t.buckets() == N && t.table.ctrl.as_ptr() == ctrl0, "reserve reclaims tombstones in place when len + additional <= capacity / 2");
        let st2 = read_state::<N>(&t)?;
        ensure!(st.same_view(&st2) && st2.deleted() == 0 && st2.reach_all(), "in-place reclamation keeps every element reachable and leaves no tombstone");
    } else {
        let want = core::cmp::max(items + add, cap + 1);
        let nb = capacity_to_buckets(want, TableLayout::new::<u64>());
        ensure!(nb == Some(t.buckets()), "reserve grows to capacity_to_buckets(max(len + additional, capacity + 1)) buckets, no more");
        ensure!(t.table.items == items, "growth keeps the element count");
    }
    Ok(())
}

/// RawTable::insert at full load where the slot found first is an EMPTY bucket: reserve(1) runs
/// (in place or growing) and the slot is searched AGAIN in the rehashed table.
pub fn ob_insert_full_load<S: Src, const N: usize, const N2: usize>(s: &mut S) -> Chk {
    let mut st = match draw_state::<S, N>(s, true) {
        Some(st) => st,
        None => return Ok(()),
    };
    let mut directed: Option<u64> = None;
    if s.native() {
        let w = Group::WIDTH;
        if N >= 4 * w && s.bool() {
            // directed profile: the probe window of home h is completely full and contains one
            // element e whose own home window (h - W) holds only tombstones; an in-place rehash moves e
            // home and opens an EMPTY hole in window(h), in front of whatever lies behind it
            st = St::<N> { kind: [K_EMPTY; N], val: [0; N] };
            let h = s.below(N);
            let h2 = (h + N - w) & (N - 1);
            let hi = s.u64() & !0xFFu64;
            for_upto!(i, w, {
                // fillers with home h2 occupy window(h2)
                let v = (h2 as u64) | hi | ((i as u64) << 12);
                let slot = spec_first_special(&st, h2);
                st.kind[slot] = K_FULL;
                st.val[slot] = v;
            });
            // e: home h2, displaced into window(h)
            let e = (h2 as u64) | hi | (0x77 << 12);
            let slot = spec_first_special(&st, h2);
            st.kind[slot] = K_FULL;
            st.val[slot] = e;
            // the rest of window(h): elements with home h
            for_upto!(i, w - 1, {
                let v = (h as u64) | hi | ((i as u64 + 0x100) << 12);
                let slot = spec_first_special(&st, h);
                st.kind[slot] = K_FULL;
                st.val[slot] = v;
            });
            // the fillers are removed again: tombstones
            for_upto!(i, N, {
                if st.kind[i] == K_FULL && (hash_of(st.val[i]) as usize) & (N - 1) == h2 && st.val[i] != e {
                    st.kind[i] = K_DELETED;
                }
            });
            // saturate with tombstones, leaving the EMPTY buckets at the start of window(h + W)
            for_upto!(i, N, {
                let idx = (h + w + N - 1 - i) & (N - 1);
                if st.kind[idx] == K_EMPTY && st.items() + st.deleted() < St::<N>::CAP {
                    st.kind[idx] = K_DELETED;
                }
            });
            directed = Some((h as u64) | (s.u64() & !0xFFu64));
        } else if N >= w {
            // saturate: turn EMPTY buckets into tombstones until growth_left == 0 (F2 is unaffected by
            // EMPTY -> DELETED on tables of at least one group; smaller tables hold no tombstones)
            for_upto!(i, N, {
                if st.kind[i] == K_EMPTY && st.items() + st.deleted() < St::<N>::CAP {
                    st.kind[i] = K_DELETED;
                }
            });
        }
    }
    req!(s, st.accounting_ok() && st.growth_left() == 0 && st.reach_all());
    let v = match directed {
        Some(v) => v,
        None => s.u64(),
    };
    reach!(directed.is_some(), "directed full-window profile");
    let first = spec_first_special(&st, (hash_of(v) as usize) & (N - 1));
    req!(s, first != usize::MAX && st.kind[first] == K_EMPTY);
    let mut t = build(&st);
    let b = t.insert(hash_of(v), v, hasher);
    ensure!(unsafe { *b.as_ref() } == v, "insert: returned bucket holds the value");
    if t.buckets() == N {
        let st2 = read_state::<N>(&t)?;
        ensure!(st.same_view_plus(&st2, v), "insert at full load (in-place rehash): one more copy, nothing lost");
        ensure!(st2.reach_all(), "insert at full load (in-place rehash): every element, the new one included, is reachable");
    } else {
        ensure!(t.buckets() == N2, "insert at full load grows to the next size only");
        let st2 = read_state::<N2>(&t)?;
        ensure!(st.same_view_plus(&st2, v), "insert at full load (growth): one more copy, nothing lost");
        ensure!(st2.reach_all(), "insert at full load (growth): every element reachable");
    }
    Ok(())
}

// ---------------------------------------------------------------------------
// further bounded-inductive obligations (also run natively at larger sizes)
// ---------------------------------------------------------------------------

/// clear (no drop glue): every bucket EMPTY, counters reset, same allocation
pub fn ob_clear<S: Src, const N: usize>(s: &mut S) -> Chk {
    let st = match draw_state::<S, N>(s, false) {
        Some(st) => st,
        None => return Ok(()),
    };
    let mut t = build(&st);
    let ctrl0 = t.table.ctrl.as_ptr();
    t.clear();
    ensure!(t.table.ctrl.as_ptr() == ctrl0 && t.buckets() == N, "clear keeps the allocation");
    let st2 = read_state::<N>(&t)?;
    ensure!(st2.items() == 0, "clear removes every element");
    if st.items() == 0 {
        // documented fast path: clearing an already empty table does nothing (tombstones stay accounted for)
        ensure!(st2.same_except(&st, N), "clear of an empty table leaves it as it was");
    } else {
        ensure!(st2.deleted() == 0, "clear leaves only EMPTY buckets");
        ensure!(t.table.growth_left == St::<N>::CAP, "clear restores the full capacity");
    }
    Ok(())
}

/// RawIter::fold visits exactly the full buckets (each once) from any prefix position of next()
pub fn ob_iter_fold<S: Src, const N: usize>(s: &mut S) -> Chk {
    let st = match draw_state::<S, N>(s, false) {
        Some(st) => st,
        None => return Ok(()),
    };
    let t = build(&st);
    let total = st.items();
    let cut = s.below(N + 1);
    let mut it = unsafe { t.iter() };
    let mut seen = [0u8; N];
    let mut n = 0;
    for_upto!(k, N, {
        if k < cut {
            if let Some(b) = it.next() {
                let i = unsafe { t.bucket_index(&b) };
                ensure!(i < N, "RawIter::next yields buckets of the table");
                seen[i] += 1;
                n += 1;
            }
        }
    });
    let it2 = it.clone();
    let (cnt, seen2) = it.fold((0usize, seen), |(c, mut sn), b| {
        let i = unsafe { t.bucket_index(&b) };
        if i < N {
            sn[i] += 1;
        }
        (c + 1, sn)
    });
    ensure!(n + cnt == total, "fold visits exactly the remaining elements");
    ensure!(it2.len() == cnt, "a cloned iterator reports the same remaining length");
    for_upto!(i, N, {
        ensure!(seen2[i] == (if st.kind[i] == K_FULL { 1 } else { 0 }), "next() followed by fold() visits every full bucket exactly once and nothing else");
    });
    Ok(())
}

/// drain consumed to any cut then dropped: a valid empty table in the same allocation, full capacity
pub fn ob_drain<S: Src, const N: usize>(s: &mut S) -> Chk {
    let st = match draw_state::<S, N>(s, false) {
        Some(st) => st,
        None => return Ok(()),
    };
    let mut t = build(&st);
    let ctrl0 = t.table.ctrl.as_ptr();
    let cut = s.below(N + 1);
    let leak = s.bool();
    let mut got = 0;
    {
        let mut d = t.drain();
        for_upto!(k, N, {
            if k < cut {
                if let Some(v) = d.next() {
                    ensure!(st.count(v) > 0, "drain yields stored elements");
                    got += 1;
                }
            }
        });
        ensure!(d.len() == st.items() - got, "RawDrain::size_hint is the true remaining count");
        if leak {
            core::mem::forget(d);
        }
    }
    ensure!(got == (if cut < st.items() { cut } else { st.items() }), "drain yields one element per call until exhausted");
    if leak {
        ensure!(t.table.bucket_mask == 0 && t.table.items == 0, "a leaked drain leaves a valid empty (unallocated) table");
    } else {
        ensure!(t.table.ctrl.as_ptr() == ctrl0 && t.buckets() == N, "a dropped drain hands the allocation back");
        let st2 = read_state::<N>(&t)?;
        ensure!(st2.items() == 0 && st2.deleted() == 0 && t.table.growth_left == St::<N>::CAP, "after drain: empty, no tombstones, full capacity");
    }
    Ok(())
}

/// clone: same abstract state in a new allocation; the source is untouched
pub fn ob_clone<S: Src, const N: usize>(s: &mut S) -> Chk {
    let st = match draw_state::<S, N>(s, false) {
        Some(st) => st,
        None => return Ok(()),
    };
    let t = build(&st);
    let c = t.clone();
    ensure!(c.table.ctrl.as_ptr() != t.table.ctrl.as_ptr(), "clone owns its own allocation");
    let a = read_state::<N>(&c)?;
    let b = read_state::<N>(&t)?;
    ensure!(a.same_except(&st, N) && b.same_except(&st, N), "clone reproduces every bucket; the source is unchanged");
    Ok(())
}

/// get_many_mut for two requests: both resolve like find; same entry => panic (here: the harness
/// checks the pointer comparison outcome through get_many_mut_pointers' contract)
pub fn ob_get_many2<S: Src, const N: usize>(s: &mut S) -> Chk {
    let st = match draw_state::<S, N>(s, true) {
        Some(st) => st,
        None => return Ok(()),
    };
    req!(s, st.distinct());
    let (a, b) = (s.u64(), s.u64());
    let mut t = build(&st);
    let ptrs = unsafe { t.get_many_mut_pointers([hash_of(a), hash_of(b)], |i, x| *x == (if i == 0 { a } else { b })) };
    match ptrs[0] {
        Some(p) => ensure!(st.count(a) == 1 && unsafe { *p.as_ptr() } == a, "get_many_mut: request 0 resolves to its own entry"),
        None => ensure!(st.count(a) == 0, "get_many_mut: None only for an absent key"),
    }
    match ptrs[1] {
        Some(p) => ensure!(st.count(b) == 1 && unsafe { *p.as_ptr() } == b, "get_many_mut: request 1 resolves to its own entry"),
        None => ensure!(st.count(b) == 0, "get_many_mut: None only for an absent key"),
    }
    if let (Some(p), Some(q)) = (ptrs[0], ptrs[1]) {
        ensure!((p == q) == (a == b), "get_many_mut: two requests share an entry exactly when they ask for the same key");
    }
    Ok(())
}

/// iter_hash(h): every full bucket holding an element with hash h, none twice, only full buckets
pub fn ob_iter_hash<S: Src, const N: usize>(s: &mut S) -> Chk {
    let st = match draw_state::<S, N>(s, true) {
        Some(st) => st,
        None => return Ok(()),
    };
    let v = s.u64();
    let h = hash_of(v);
    let t = build(&st);
    let mut seen = [0u8; N];
    let mut it = unsafe { t.iter_hash(h) };
    // a correct iterator reports each bucket at most once: N calls suffice, the next one must be None
    for_upto!(k, N, {
        if let Some(b) = it.next() {
            let i = unsafe { t.bucket_index(&b) };
            ensure!(i < N && st.kind[i] == K_FULL, "iter_hash yields full buckets of the table only");
            seen[i] += 1;
        }
    });
    ensure!(it.next().is_none(), "iter_hash terminates");
    for_upto!(i, N, {
        ensure!(seen[i] <= 1, "iter_hash yields no bucket twice");
        if st.kind[i] == K_FULL && hash_of(st.val[i]) == h {
            ensure!(seen[i] == 1, "iter_hash yields every stored element that was inserted with this hash");
        }
    });
    Ok(())
}

/// replace_bucket_with: Some(new) keeps the slot (control byte, mirror, counters restored), None removes
pub fn ob_replace_bucket_with<S: Src, const N: usize>(s: &mut S) -> Chk {
    let st = match draw_state::<S, N>(s, true) {
        Some(st) => st,
        None => return Ok(()),
    };
    let i = s.below(N);
    req!(s, st.kind[i] == K_FULL);
    let keep = s.bool();
    // the replacement keeps the hash (same position bits and tag), as the Entry API guarantees (same key)
    let nv = st.val[i] ^ ((s.u64() & 0xFFFF) << 16);
    let mut t = build(&st);
    let r = unsafe { t.replace_bucket_with(t.bucket(i), |old| if keep && old == st.val[i] { Some(nv) } else { None }) };
    ensure!(r == keep, "replace_bucket_with returns whether the closure kept the element");
    let st2 = read_state::<N>(&t)?;
    ensure!(st2.same_except(&st, i), "replace_bucket_with touches no other bucket");
    if keep {
        ensure!(st2.kind[i] == K_FULL && st2.val[i] == nv, "replace_bucket_with(Some): the slot holds the new element");
        ensure!(t.table.growth_left == st.growth_left(), "replace_bucket_with(Some): growth_left restored");
    } else {
        ensure!(st2.kind[i] != K_FULL, "replace_bucket_with(None): the element is removed");
    }
    ensure!(st2.reach_all(), "replace_bucket_with keeps every element reachable");
    Ok(())
}
