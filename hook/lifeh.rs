// ---------------------------------------------------------------------------
// Ownership obligations: every element / block released exactly once (C03), clone / clone_from /
// == (C11), try_reserve failure reporting (C12), allocation accounting (C08).
// Elements are ledger-tracked `D`, the allocator is the recording `LedgerAlloc`.
// ---------------------------------------------------------------------------

pub type LMap = HashMap<D, D, IdBuild, LedgerAlloc>;

pub fn build_t_in<T: Elt, A: Allocator, const N: usize>(st: &St<N>, alloc: A) -> RawTable<T, A> {
    let mut t: RawTable<T, A> = RawTable::with_capacity_in(St::<N>::CAP, alloc);
    unsafe {
        let c = t.table.ctrl.as_ptr();
        for j in 0..N + Group::WIDTH {
            *c.add(j) = st.spec_ctrl(j);
        }
        for i in 0..N {
            if st.kind[i] == K_FULL {
                t.bucket(i).write(T::make(st.val[i], aux_of(st.val[i], i), stamp_of(st.val[i], i)));
            }
        }
    }
    t.table.items = st.items();
    t.table.growth_left = st.growth_left();
    t
}
fn start_lmap<S: Src, const N: usize>(s: &mut S) -> Option<(LMap, Ents)> {
    match draw_map_state::<S, N>(s)? {
        None => Some((HashMap::with_hasher_in(IdBuild { seed: 5 }, LedgerAlloc), Vec::new())),
        Some(st) => Some((HashMap { hash_builder: IdBuild { seed: 6 }, table: build_t_in::<(D, D), LedgerAlloc, N>(&st, LedgerAlloc) }, ents_of(&st).into_iter().map(|e| (e.0, e.1, 0)).collect())),
    }
}
fn ledgers_clean() -> Chk {
    ensure!(ledger_double_drops() == 0, "no element is dropped twice");
    ensure!(ledger_live() == 0, "every element is dropped or moved out exactly once (nothing leaked)");
    ensure!(alloc_error().is_none(), "every block is returned exactly once with the layout it was requested with");
    ensure!(alloc_live_blocks() == 0, "after the collection is dropped nothing remains allocated");
    Ok(())
}

/// every exit path of elements and blocks (C03)
pub fn ob_life<S: Src, const N: usize>(s: &mut S) -> Chk {
    ledger_reset();
    alloc_reset();
    disarm_fault();
    {
        let (mut map, m) = match start_lmap::<S, N>(s) {
            Some(x) => x,
            None => return Ok(()),
        };
        let id = draw_key(s, &m);
        let total = m.len();
        let cut = s.below(total + 2);
        match s.below(14) {
            0 => {
                let r = map.remove(&D::new(id));
                drop(r);
            }
            1 => {
                let r = map.insert(D::new(id), D::new(1)); // overwrite or fresh
                drop(r);
            }
            2 => map.clear(),
            3 => {
                let mask = s.u64();
                map.retain(|k, _| (mask >> (k.id & 63)) & 1 == 1);
            }
            4 => {
                let mask = s.u64();
                let mut e = map.extract_if(|k, _| (mask >> (k.id & 63)) & 1 == 1);
                for _ in 0..cut {
                    if e.next().is_none() {
                        break;
                    }
                }
            }
            5 => {
                let mut d = map.drain();
                for _ in 0..cut {
                    d.next();
                }
            }
            6 => {
                let mut it = map.into_iter();
                for _ in 0..cut {
                    it.next();
                }
                drop(it);
                return ledgers_clean();
            }
            7 => {
                let mut it = map.into_keys();
                for _ in 0..cut {
                    it.next();
                }
                drop(it);
                return ledgers_clean();
            }
            8 => {
                let mut it = map.into_values();
                for _ in 0..cut {
                    it.next();
                }
                drop(it);
                return ledgers_clean();
            }
            9 => map.shrink_to(s.below(2 * N)),
            10 => {
                // clone_from into an occupied target of another size
                let (mut tgt, _) = match start_lmap::<S, 8>(s) {
                    Some(x) => x,
                    None => return Ok(()),
                };
                tgt.clone_from(&map);
                ensure!(tgt.len() == map.len(), "clone_from: target has the source's length");
                drop(tgt);
            }
            11 => {
                let e = map.remove_entry(&D::new(id));
                drop(e);
                map.reserve(s.below(2 * N));
            }
            12 => {
                let blocks0 = alloc_live_blocks();
                let r = map.try_insert(D::new(id), D::new(2));
                drop(r);
                let _ = blocks0;
            }
            _ => {}
        }
        sub!(check_wf_only(&map.table));
        ensure!(alloc_live_bytes() == map.allocation_size(), "allocation_size() equals the bytes currently held from the allocator");
    }
    ledgers_clean()
}

/// collections that were never given an element or a capacity own no block (C03, C08)
pub fn ob_no_alloc<S: Src, const N: usize>(s: &mut S) -> Chk {
    alloc_reset();
    ledger_reset();
    {
        let a: LMap = HashMap::with_hasher_in(IdBuild::default(), LedgerAlloc);
        let b: LMap = HashMap::with_capacity_and_hasher_in(0, IdBuild::default(), LedgerAlloc);
        let c: HashSet<D, IdBuild, LedgerAlloc> = HashSet::with_hasher_in(IdBuild::default(), LedgerAlloc);
        let d: HashTable<D, LedgerAlloc> = HashTable::new_in(LedgerAlloc);
        let e: HashTable<D, LedgerAlloc> = HashTable::with_capacity_in(0, LedgerAlloc);
        ensure!(a.allocation_size() == 0 && b.allocation_size() == 0 && c.allocation_size() == 0 && d.allocation_size() == 0 && e.allocation_size() == 0, "new / with_capacity(0) report no allocation");
        ensure!(a.capacity() == 0 && a.get(&D::new(1)).is_none() && a.iter().next().is_none(), "unallocated map behaves as empty");
        let mut f: LMap = HashMap::with_hasher_in(IdBuild::default(), LedgerAlloc);
        ensure!(f.remove(&D::new(s.u64())).is_none(), "remove on an unallocated map");
        f.clear();
        f.shrink_to_fit();
        f.retain(|_, _| true);
        drop(f.drain());
        let g = f.clone();
        ensure!(g.is_empty(), "clone of an unallocated map is empty");
    }
    ensure!(alloc_calls() == 0, "new(), default() and with_capacity(0) never call the allocator");
    let n = s.below(3 * N) + 1;
    {
        let mut w: LMap = HashMap::with_capacity_and_hasher_in(n, IdBuild::default(), LedgerAlloc);
        ensure!(w.capacity() >= n, "with_capacity(n).capacity() >= n");
        let calls = alloc_calls();
        let room = w.capacity();
        for i in 0..room {
            w.insert(D::new(i as u64 * 0x0101_0101 + 1), D::new(0));
        }
        ensure!(alloc_calls() == calls, "inserting capacity() - len() new keys performs no allocation");
        ensure!(alloc_live_bytes() == w.allocation_size(), "allocation_size() equals the bytes held from the allocator");
    }
    ledgers_clean()
}

/// clone / clone_from / == (C11)
pub fn ob_clone_eq<S: Src, const N: usize, const M: usize>(s: &mut S) -> Chk {
    ledger_reset();
    alloc_reset();
    disarm_fault();
    {
        let (mut src, m) = match start_lmap::<S, N>(s) {
            Some(x) => x,
            None => return Ok(()),
        };
        let live0 = ledger_live();
        match s.below(4) {
            0 => {
                let mut c = src.clone();
                ensure!(c == src && src == c, "clone compares equal to the source (symmetric)");
                ensure!(ledger_live() == 2 * live0, "clone holds independently owned clones of every element");
                sub!(check_table(&c.table, &m));
                // later changes to one do not affect the other
                let id = draw_key(s, &m);
                c.insert(D::new(id), D::new(0xC10E));
                let rid = draw_key(s, &m);
                c.remove(&D::new(rid));
                sub!(check_table(&src.table, &m));
                src.clear();
                ensure!(c.get(&D::new(id)).map(|v| v.id) == (if rid == id { None } else { Some(0xC10E) }), "the clone is unaffected by clearing the source");
                sub!(check_wf_only(&c.table));
            }
            1 => {
                // clone_from into a target in any state (empty, smaller, same size, larger, tombstones)
                let (mut tgt, _) = match start_lmap::<S, M>(s) {
                    Some(x) => x,
                    None => return Ok(()),
                };
                tgt.clone_from(&src);
                ensure!(tgt == src, "clone_from yields a collection equal to the source");
                sub!(check_table(&tgt.table, &m));
                sub!(check_table(&src.table, &m));
                ensure!(ledger_live() == 2 * live0, "clone_from drops the old target elements and owns fresh clones");
                tgt.insert(D::new(0xABCDEF), D::new(1));
                sub!(check_table(&src.table, &m));
            }
            2 => {
                // == ignores layout, capacity, history and hasher state
                let mut other: LMap = HashMap::with_capacity_and_hasher_in(s.below(100), IdBuild { seed: 77 }, LedgerAlloc);
                let mut order: Vec<usize> = (0..m.len()).collect();
                let rot = s.below(m.len() + 1);
                order.rotate_left(rot % core::cmp::max(m.len(), 1));
                // noise: insert and remove extra keys to create tombstones
                for j in 0..s.below(10) {
                    other.insert(D::new(0xFFFF_0000 + j as u64), D::new(0));
                }
                for i in order {
                    other.insert(D::new(m[i].0), D::new(m[i].1));
                }
                for j in 0..10 {
                    other.remove(&D::new(0xFFFF_0000 + j as u64));
                }
                ensure!(other == src && src == other, "== holds for equal contents whatever the history, capacity or hasher state");
                // == is decided by the values' own ==, also when both operands are one and the same object:
                // a value that does not equal itself (NaN) makes a map unequal to itself and to its clone
                {
                    let mut fm: HashMap<u64, f64, IdBuild> = HashMap::with_hasher(IdBuild { seed: 5 });
                    let nan_at = if m.is_empty() || s.bool() { usize::MAX } else { s.below(m.len()) };
                    for (i, kv) in m.iter().enumerate() {
                        fm.insert(kv.0, if i == nan_at { f64::NAN } else { kv.1 as f64 });
                    }
                    let fm_ref = &fm;
                    ensure!((*fm_ref == *fm_ref) == (nan_at == usize::MAX), "m == m exactly when every value equals itself");
                    let fc = fm.clone();
                    ensure!((fc == fm) == (nan_at == usize::MAX) && (fm == fc) == (nan_at == usize::MAX), "m == m.clone() exactly when every value equals itself");
                }
                if !m.is_empty() {
                    let i = s.below(m.len());
                    if s.bool() {
                        other.insert(D::new(m[i].0), D::new(m[i].1 ^ 1));
                        ensure!(other != src && src != other, "== is false when one value differs");
                    } else {
                        other.remove(&D::new(m[i].0));
                        ensure!(other != src && src != other, "== is false when one key is missing");
                        other.insert(D::new(m[i].0 ^ (1 << 30)), D::new(m[i].1));
                        ensure!(other != src && src != other, "== is false for same length but different keys");
                    }
                }
            }
            _ => {
                // sets and tables
                let st = match draw_map_state::<S, N>(s) {
                    Some(Some(st)) => st,
                    _ => return Ok(()),
                };
                let set: HashSet<D, IdBuild, LedgerAlloc> = HashSet { map: HashMap { hash_builder: IdBuild::default(), table: build_t_in::<(D, ()), LedgerAlloc, N>(&st, LedgerAlloc) } };
                let c = set.clone();
                ensure!(c == set && c.len() == set.len(), "HashSet clone equals the source");
                let tab: HashTable<D, LedgerAlloc> = HashTable { raw: build_t_in::<D, LedgerAlloc, N>(&st, LedgerAlloc) };
                let mut c2 = tab.clone();
                ensure!(c2.len() == tab.len(), "HashTable clone has the source's length");
                sub!(check_wf_only(&c2.raw));
                c2.clone_from(&tab);
                ensure!(c2.len() == tab.len(), "HashTable clone_from has the source's length");
                let mut a: Vec<u64> = tab.iter().map(|d| d.id).collect();
                let mut b: Vec<u64> = c2.iter().map(|d| d.id).collect();
                a.sort();
                b.sort();
                ensure!(a == b, "HashTable clone holds the same elements");
            }
        }
    }
    ledgers_clean()
}

/// try_reserve: success with enough room, or CapacityOverflow, or AllocError carrying the refused
/// layout; never a panic; on error nothing changed, nothing leaked, nothing dropped (C12)
pub fn ob_try_reserve<S: Src, const N: usize>(s: &mut S) -> Chk {
    ledger_reset();
    alloc_reset();
    disarm_fault();
    {
        let (mut map, m) = match start_lmap::<S, N>(s) {
            Some(x) => x,
            None => return Ok(()),
        };
        let add = match s.below(9) {
            0 => s.below(4),
            1 => s.below(8 * N),
            2 => (7usize << s.below(40)) / 8 + s.below(3),
            3 => isize::MAX as usize - s.below(3),
            4 => usize::MAX - s.below(3),
            5 => usize::MAX / core::mem::size_of::<(D, D)>() + s.below(3) - 1,
            6 => (1usize << (20 + s.below(40))) - s.below(2),
            7 => usize::MAX / 8 - s.below(3),
            _ => s.usize(),
        };
        let fail = s.below(3);
        if fail < 2 {
            alloc_fail_at(fail as i64);
        }
        let blocks0 = alloc_live_blocks();
        let bytes0 = alloc_live_bytes();
        let live0 = ledger_live();
        let ctrl0 = map.table.table.ctrl.as_ptr();
        let (len0, cap0) = (map.len(), map.capacity());
        // huge requests are never attempted for real: the recording allocator refuses them
        if add > (1 << 16) {
            alloc_fail_at(0);
        }
        let r = std::panic::catch_unwind(std::panic::AssertUnwindSafe(|| map.try_reserve(add)));
        let r = match r {
            Ok(r) => r,
            Err(_) => {
                ensure!(false, "try_reserve never panics");
                return Ok(());
            }
        };
        ensure!(alloc_error().is_none(), "try_reserve never asks the allocator for an invalid layout");
        match r {
            Ok(()) => {
                ensure!(len0.checked_add(add).map_or(false, |n| map.capacity() >= n), "try_reserve Ok: capacity() >= len() + additional");
                sub!(check_table(&map.table, &m));
            }
            Err(e) => {
                match e {
                    crate::TryReserveError::CapacityOverflow => {
                        ensure!(add > (1 << 40), "CapacityOverflow only for sizes that are not representable");
                    }
                    crate::TryReserveError::AllocError { layout } => {
                        ensure!(alloc_last_refused() == Some((layout.size(), layout.align())), "AllocError carries the layout the allocator refused");
                    }
                }
                ensure!(map.len() == len0 && map.capacity() == cap0 && map.table.table.ctrl.as_ptr() == ctrl0, "on error len(), capacity() and the allocation are exactly as before");
                ensure!(alloc_live_blocks() == blocks0 && alloc_live_bytes() == bytes0 && ledger_live() == live0, "on error nothing has been leaked or dropped");
                sub!(check_table(&map.table, &m));
            }
        }
        alloc_fail_at(-1);
    }
    ledgers_clean()
}
