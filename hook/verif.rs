// Root of the verification hook module `hashbrown::raw::verif`.
// Included by /repo/src/raw/mod.rs under `--cfg hashbrown_verif`; lives in /verif/hook.
//
// Layout:
//   verif.rs   value sources (Kani / replay), contract macros, harness registry macro
//   pure.rs    contracts of the pure arithmetic and bit-level functions (C17, C18, C20)
//   state.rs   specification predicates (wf, reach, view) and symbolic table states
//   rawh.rs    Hoare obligations {Inv && pre} f {Inv && post} for the raw table core
//   apih.rs    obligations for the public HashMap / HashSet / HashTable wrappers
extern crate std;
use super::*;
use std::string::String;
use std::vec;
use std::vec::Vec;

pub type Chk = Result<(), &'static str>;

/// Source of input values: `kani::any()` under Kani, recorded bytes under replay.
pub trait Src {
    fn bytes(&mut self, n: usize) -> u64;
    /// Kani: `kani::assume(c)` and true.  Replay: returns c (caller returns Ok(()) when false).
    fn assume(&mut self, c: bool) -> bool;
    fn u8(&mut self) -> u8 {
        self.bytes(1) as u8
    }
    fn u16(&mut self) -> u16 {
        self.bytes(2) as u16
    }
    fn u32(&mut self) -> u32 {
        self.bytes(4) as u32
    }
    fn u64(&mut self) -> u64 {
        self.bytes(8)
    }
    fn usize(&mut self) -> usize {
        self.bytes(8) as usize
    }
    fn bool(&mut self) -> bool {
        self.bytes(1) & 1 == 1
    }
    /// true for the native sampling source: states are then generated constructively
    fn native(&self) -> bool {
        false
    }
    /// value in 0..n (n >= 1)
    fn below(&mut self, n: usize) -> usize {
        let v = self.u8() as usize;
        if self.assume(v < n) {
            v
        } else {
            0
        }
    }
}

#[cfg(kani)]
pub struct K;
#[cfg(kani)]
impl Src for K {
    fn bytes(&mut self, n: usize) -> u64 {
        match n {
            1 => kani::any::<u8>() as u64,
            2 => kani::any::<u16>() as u64,
            4 => kani::any::<u32>() as u64,
            _ => kani::any::<u64>(),
        }
    }
    fn assume(&mut self, c: bool) -> bool {
        kani::assume(c);
        true
    }
    fn bool(&mut self) -> bool {
        kani::any::<bool>()
    }
}

/// Replays the byte vectors printed by `kani --concrete-playback=print`, in draw order.
pub struct Replay {
    vals: Vec<Vec<u8>>,
    pos: usize,
    pub underrun: bool,
    pub assume_failed: bool,
}
impl Replay {
    pub fn new(vals: Vec<Vec<u8>>) -> Self {
        Replay { vals, pos: 0, underrun: false, assume_failed: false }
    }
}
impl Src for Replay {
    fn bytes(&mut self, n: usize) -> u64 {
        let mut r = 0u64;
        if self.pos < self.vals.len() {
            let v = &self.vals[self.pos];
            let mut i = 0;
            while i < v.len() && i < 8 {
                r |= (v[i] as u64) << (8 * i);
                i += 1;
            }
        } else {
            self.underrun = true;
        }
        self.pos += 1;
        let _ = n;
        r
    }
    fn assume(&mut self, c: bool) -> bool {
        if !c {
            self.assume_failed = true;
        }
        c
    }
}

/// Native sampling source (engine R: runtime evaluation of the same contracts on sampled
/// states; a bounded stand-in, never counted as proved).  xorshift64*, seeded.
pub struct Rand {
    x: u64,
    pool: [u64; 4],
    pub assume_failed: bool,
}
impl Rand {
    pub fn new(seed: u64) -> Self {
        let mut r = Rand { x: seed | 1, pool: [0; 4], assume_failed: false };
        let mut i = 0;
        while i < 4 {
            r.pool[i] = r.raw();
            i += 1;
        }
        r
    }
    #[inline]
    pub fn raw(&mut self) -> u64 {
        self.x ^= self.x >> 12;
        self.x ^= self.x << 25;
        self.x ^= self.x >> 27;
        self.x.wrapping_mul(0x2545_F491_4F6C_DD1D)
    }
}
impl Src for Rand {
    fn bytes(&mut self, n: usize) -> u64 {
        let r = self.raw();
        if n >= 8 {
            // structured 64-bit values: equal values, equal hashes with different values,
            // equal tags / equal positions only, or fully random
            match (r >> 60) & 7 {
                0 | 1 => self.pool[(r & 3) as usize],
                2 => self.pool[(r & 3) as usize] ^ ((r >> 8) & 0xFF00),          // same hash, other value
                3 => (self.pool[(r & 3) as usize] & !0xFF) | ((r >> 8) & 0xFF),  // same tag, other position
                4 => (self.pool[(r & 3) as usize] & 0xFF) | (r & !0xFF),         // same position, other tag
                _ => r,
            }
        } else {
            r >> 8 & ((1u64 << (8 * n)) - 1)
        }
    }
    fn assume(&mut self, c: bool) -> bool {
        if !c {
            self.assume_failed = true;
        }
        c
    }
    fn native(&self) -> bool {
        true
    }
    fn below(&mut self, n: usize) -> usize {
        (self.raw() >> 16) as usize % n
    }
}

/// A contract clause: checked as its own CBMC property (named by the message) and
/// reported as `Err(message)` by the native replay.
macro_rules! ensure {
    ($c:expr, $m:literal) => {
        if !($c) {
            #[cfg(kani)]
            kani::assert(false, $m);
            return Err($m);
        }
    };
}
/// Precondition / state hypothesis.
macro_rules! req {
    ($s:expr, $c:expr) => {
        if !$s.assume($c) {
            return Ok(());
        }
    };
}
/// Vacuity guard: this point/condition must be reachable (reported as a cover property).
macro_rules! reach {
    ($c:expr, $m:literal) => {
        #[cfg(kani)]
        kani::cover!($c, $m);
    };
}
/// Propagate a nested check.
macro_rules! sub {
    ($e:expr) => {
        if let Err(m) = $e {
            return Err(m);
        }
    };
}

/// `for i in 0..n` (n <= 64) written as three nested loops of constant trip count 4, so that
/// specification-side loops are fully unrolled by the verifier whatever the harness's unwind
/// bound is; the unwind bound then speaks about the loops of the code under test only.
macro_rules! for_upto {
    ($i:ident, $n:expr, $body:block) => {{
        let n_: usize = $n;
        let mut a_ = 0usize;
        while a_ * 16 < n_ {
            let mut b_ = 0usize;
            while b_ < 4 && a_ * 16 + b_ * 4 < n_ {
                let mut c_ = 0usize;
                while c_ < 4 && a_ * 16 + b_ * 4 + c_ < n_ {
                    let $i: usize = a_ * 16 + b_ * 4 + c_;
                    $body
                    c_ += 1;
                }
                b_ += 1;
            }
            a_ += 1;
        }
    }};
}

include!(concat!(env!("HASHBROWN_VERIF_DIR"), "/pure.rs"));
include!(concat!(env!("HASHBROWN_VERIF_DIR"), "/state.rs"));
include!(concat!(env!("HASHBROWN_VERIF_DIR"), "/rawh.rs"));
#[cfg(not(kani))]
include!(concat!(env!("HASHBROWN_VERIF_DIR"), "/dynst.rs"));
#[cfg(not(kani))]
include!(concat!(env!("HASHBROWN_VERIF_DIR"), "/apih.rs"));
#[cfg(not(kani))]
include!(concat!(env!("HASHBROWN_VERIF_DIR"), "/seth.rs"));
#[cfg(not(kani))]
include!(concat!(env!("HASHBROWN_VERIF_DIR"), "/tableh.rs"));
#[cfg(not(kani))]
include!(concat!(env!("HASHBROWN_VERIF_DIR"), "/iterh.rs"));
#[cfg(not(kani))]
include!(concat!(env!("HASHBROWN_VERIF_DIR"), "/lifeh.rs"));
#[cfg(not(kani))]
include!(concat!(env!("HASHBROWN_VERIF_DIR"), "/panich.rs"));
#[cfg(not(kani))]
include!(concat!(env!("HASHBROWN_VERIF_DIR"), "/extrah.rs"));

/// Declares obligations: each `h_*<S: Src>(&mut S) -> Chk` in `kani { }` becomes a Kani proof
/// harness `raw::verif::k::h_*`; those and the ones in `native { }` (compiled only outside Kani)
/// are entries of the native replay / sampling dispatchers.
macro_rules! harnesses {
    (kani { $( $(#[$m:meta])* $name:ident ),* $(,)? } native { $( $nname:ident ),* $(,)? }) => {
        #[cfg(kani)]
        mod k {
            $(
                #[kani::proof]
                $(#[$m])*
                fn $name() {
                    let mut s = super::K;
                    let r = super::$name(&mut s);
                    assert!(r.is_ok());
                }
            )*
        }
        #[cfg(not(kani))]
        fn dispatch<S: Src>(name: &str, s: &mut S) -> Option<Chk> {
            Some(match name {
                $( stringify!($name) => $name(s), )*
                $( stringify!($nname) => $nname(s), )*
                _ => return None,
            })
        }
        /// Native replay of a counterexample: `None` = unknown obligation.
        #[cfg(not(kani))]
        pub fn replay(name: &str, vals: Vec<Vec<u8>>) -> Option<(Chk, bool, bool)> {
            let mut s = Replay::new(vals);
            let r = dispatch(name, &mut s)?;
            Some((r, s.assume_failed, s.underrun))
        }
        /// Engine R: evaluate obligation `name` on `iters` sampled inputs; returns
        /// (evaluated, discarded-by-precondition, first failure (iteration, sample seed, message)).
        #[cfg(not(kani))]
        pub fn sample(name: &str, seed: u64, iters: u64) -> Option<(u64, u64, Option<(u64, u64, &'static str)>)> {
            let mut done = 0u64;
            let mut skipped = 0u64;
            let mut it = 0u64;
            std::panic::set_hook(std::boxed::Box::new(|_| {}));
            while it < iters {
                let sd = seed.wrapping_mul(0x9E37_79B9_7F4A_7C15).wrapping_add(it.wrapping_mul(0xD1B5_4A32_D192_ED03)) | 1;
                let mut s = Rand::new(sd);
                let r = match std::panic::catch_unwind(std::panic::AssertUnwindSafe(|| dispatch(name, &mut s))) {
                    Ok(r) => r?,
                    Err(_) => Err("a panic escaped from the code under test (debug assertion, overflow check or unexpected panic)"),
                };
                if s.assume_failed { skipped += 1; } else { done += 1; }
                if let Err(m) = r {
                    return Some((done, skipped, Some((it, sd, m))));
                }
                it += 1;
            }
            Some((done, skipped, None))
        }
        /// Engine R: re-evaluate one sampled input (replay of a recorded breach).
        #[cfg(not(kani))]
        pub fn sample_one(name: &str, sample_seed: u64) -> Option<Chk> {
            std::panic::set_hook(std::boxed::Box::new(|_| {}));
            let mut s = Rand::new(sample_seed);
            match std::panic::catch_unwind(std::panic::AssertUnwindSafe(|| dispatch(name, &mut s))) {
                Ok(r) => r,
                Err(_) => Some(Err("a panic escaped from the code under test (debug assertion, overflow check or unexpected panic)")),
            }
        }
        #[cfg(not(kani))]
        pub const HARNESSES: &[&str] = &[ $( stringify!($name), )* $( stringify!($nname), )* ];
    };
}

include!(concat!(env!("HASHBROWN_VERIF_DIR"), "/harness_list.rs"));
