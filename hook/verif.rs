// Root of the verification hook module `hashbrown::raw::verif`.
// Included by /repo/src/raw/mod.rs under `--cfg hashbrown_verif`.
extern crate std;
use super::*;

include!(concat!(env!("HASHBROWN_VERIF_DIR"), "/pure.rs"));
