// ---------------------------------------------------------------------------
// Specification predicates over an abstract table state, and symbolic states.
//
// An abstract state `St<N>` is what the representation invariant talks about: per bucket
// a kind (EMPTY / DELETED / FULL) and, for FULL buckets, the stored value.  Everything
// else (control bytes incl. the mirrored tail, items, growth_left) is a *function* of it
// (`spec_ctrl`, `items`, F1 accounting), written here independently of the code under
// test.  `build` materialises a state in a real `RawTable` (real allocation, real layout),
// `read_state` reads a real table back and checks well-formedness (`wf`) on the way.
// ---------------------------------------------------------------------------

pub const K_EMPTY: u8 = 0;
pub const K_DELETED: u8 = 1;
pub const K_FULL: u8 = 2;

/// Hash function used by the obligations: low 8 bits (bucket position for every table size
/// used) and top 7 bits (tag) are taken from the value, the 49 bits in between are ignored,
/// so distinct values can collide in position bits, tag bits, both, or in the whole hash.
#[inline]
pub fn hash_of(v: u64) -> u64 {
    (v & 0xFF) | ((v >> 57) << 57)
}

#[derive(Clone, Copy)]
pub struct St<const N: usize> {
    pub kind: [u8; N],
    pub val: [u64; N],
}

impl<const N: usize> St<N> {
    pub const MASK: usize = N - 1;
    pub const CAP: usize = if N - 1 < 8 { N - 1 } else { (N / 8) * 7 };

    /// Draw an arbitrary abstract state (draw order: kind[0], val[0], kind[1], val[1], ...).
    /// Returns None when the drawn kinds are not kinds (caller treats as unmet precondition).
    pub fn draw<S: Src>(s: &mut S) -> (Self, bool) {
        let mut st = St { kind: [0; N], val: [0; N] };
        let mut ok = true;
        for_upto!(i, N, {
            st.kind[i] = if s.native() { s.below(3) as u8 } else { s.u8() };
            st.val[i] = s.u64();
            ok &= st.kind[i] <= K_FULL;
        });
        (st, ok)
    }
    pub fn items(&self) -> usize {
        let mut n = 0;
        for_upto!(i, N, {
            if self.kind[i] == K_FULL {
                n += 1;
            }
        });
        n
    }
    pub fn deleted(&self) -> usize {
        let mut n = 0;
        for_upto!(i, N, {
            if self.kind[i] == K_DELETED {
                n += 1;
            }
        });
        n
    }
    /// F1: every quiescent state satisfies growth_left + items + #DELETED == capacity
    pub fn accounting_ok(&self) -> bool {
        self.items() + self.deleted() <= Self::CAP
    }
    pub fn growth_left(&self) -> usize {
        Self::CAP - self.items() - self.deleted()
    }
    #[inline]
    pub fn byte(&self, i: usize) -> u8 {
        match self.kind[i] {
            K_EMPTY => EMPTY,
            K_DELETED => DELETED,
            _ => spec_tag(hash_of(self.val[i])),
        }
    }
    /// Control byte j of the real array (N + WIDTH bytes) as a function of the abstract state.
    pub fn spec_ctrl(&self, j: usize) -> u8 {
        let w = Group::WIDTH;
        if j < N {
            self.byte(j)
        } else if N >= w {
            self.byte(j - N)
        } else if j < w {
            EMPTY
        } else {
            self.byte(j - w)
        }
    }
    /// F2 for one slot: an element with hash `h` stored in bucket `i` is met by the probe
    /// sequence of `h` before any group containing an EMPTY byte.  Closed-form probe
    /// positions (triangular numbers), not `ProbeSeq`.
    pub fn reach_one(&self, i: usize, h: u64) -> bool {
        let w = Group::WIDTH;
        if N <= w {
            // a single group load from any position covers every bucket (mirror bytes)
            return true;
        }
        let groups = N / w;
        let start = (h as usize) & Self::MASK;
        for_upto!(k, groups, {
            let pos = (start + w * (k * (k + 1) / 2)) & Self::MASK;
            if (i.wrapping_sub(pos) & Self::MASK) < w {
                return true;
            }
            for_upto!(j, w, {
                if self.kind[(pos + j) & Self::MASK] == K_EMPTY {
                    return false;
                }
            });
        });
        false
    }
    pub fn reach_all(&self) -> bool {
        for_upto!(i, N, {
            if self.kind[i] == K_FULL && !self.reach_one(i, hash_of(self.val[i])) {
                return false;
            }
        });
        true
    }
    /// number of FULL buckets holding exactly `v`
    pub fn count(&self, v: u64) -> usize {
        let mut n = 0;
        for_upto!(i, N, {
            if self.kind[i] == K_FULL && self.val[i] == v {
                n += 1;
            }
        });
        n
    }
    pub fn distinct(&self) -> bool {
        for_upto!(i, N, {
            if self.kind[i] == K_FULL && self.count(self.val[i]) != 1 {
                return false;
            }
        });
        true
    }
    /// multiset of stored values equal
    pub fn same_view<const M: usize>(&self, o: &St<M>) -> bool {
        if self.items() != o.items() {
            return false;
        }
        for_upto!(i, N, {
            if self.kind[i] == K_FULL && self.count(self.val[i]) != o.count(self.val[i]) {
                return false;
            }
        });
        true
    }
    /// bucket-by-bucket equality except bucket `x` (frame condition)
    pub fn same_except(&self, o: &St<N>, x: usize) -> bool {
        for_upto!(i, N, {
            if i != x {
                if self.kind[i] != o.kind[i] {
                    return false;
                }
                if self.kind[i] == K_FULL && self.val[i] != o.val[i] {
                    return false;
                }
            }
        });
        true
    }
}

/// Materialise an abstract state in a real table (real allocator, real layout computation).
/// Control bytes are written from `spec_ctrl`, not through `set_ctrl`.
pub fn build<const N: usize>(st: &St<N>) -> RawTable<u64> {
    build_t::<u64, N>(st)
}

/// Element types the obligations instantiate the tables with.  Every element carries an
/// identity `id` (what Hash/Eq look at), and optionally a payload `aux` and a `stamp` that
/// Eq ignores (to observe which of two equal keys is stored).
pub trait Elt: Sized {
    fn make(id: u64, aux: u64, stamp: u64) -> Self;
    fn id(&self) -> u64;
    fn aux(&self) -> u64 {
        0
    }
    fn stamp(&self) -> u64 {
        0
    }
}
impl Elt for u64 {
    fn make(id: u64, _aux: u64, _stamp: u64) -> Self {
        id
    }
    fn id(&self) -> u64 {
        *self
    }
}

/// stored elements of a state built by `build_t` get these payloads (functions of id and slot)
#[inline]
pub fn aux_of(id: u64, slot: usize) -> u64 {
    id.rotate_left(13) ^ (slot as u64).wrapping_mul(0x9E37_79B9)
}
#[inline]
pub fn stamp_of(id: u64, slot: usize) -> u64 {
    0x5700_0000_0000_0000 | (slot as u64) << 8 | (id & 0xFF)
}

pub fn build_t<T: Elt, const N: usize>(st: &St<N>) -> RawTable<T> {
    let mut t: RawTable<T> = RawTable::with_capacity(St::<N>::CAP);
    debug_assert!(t.buckets() == N);
    unsafe {
        let c = t.table.ctrl.as_ptr();
        for_upto!(j, N + Group::WIDTH, {
            *c.add(j) = st.spec_ctrl(j);
        });
        for_upto!(i, N, {
            if st.kind[i] == K_FULL {
                t.bucket(i).write(T::make(st.val[i], aux_of(st.val[i], i), stamp_of(st.val[i], i)));
            }
        });
    }
    t.table.items = st.items();
    t.table.growth_left = st.growth_left();
    t
}

/// Read a real table back into an abstract state, checking well-formedness (`wf`):
/// bucket count, every control byte a legal byte, mirrored tail / padding as specified,
/// tag of every FULL bucket = tag(hash(value)), items == #FULL, F1 accounting.
pub fn read_state<const N: usize>(t: &RawTable<u64>) -> Result<St<N>, &'static str> {
    ensure!(t.table.bucket_mask == N - 1, "wf: bucket count");
    let mut st = St::<N> { kind: [0; N], val: [0; N] };
    unsafe {
        let c = t.table.ctrl.as_ptr();
        for_upto!(i, N, {
            let b = *c.add(i);
            if b == EMPTY {
                st.kind[i] = K_EMPTY;
            } else if b == DELETED {
                st.kind[i] = K_DELETED;
            } else {
                ensure!(b < 0x80, "wf: control byte is EMPTY, DELETED or a 7-bit tag");
                st.kind[i] = K_FULL;
                st.val[i] = *t.bucket(i).as_ref();
                ensure!(b == spec_tag(hash_of(st.val[i])), "wf: tag of a full bucket is the tag of its element's hash");
            }
        });
        for_upto!(j, N + Group::WIDTH, {
            if j >= N {
                ensure!(*c.add(j) == st.spec_ctrl(j), "wf: mirrored / padding control bytes");
            }
        });
    }
    ensure!(t.table.items == st.items(), "wf: items == number of full buckets");
    ensure!(st.accounting_ok(), "wf: items + tombstones <= capacity (an EMPTY bucket always exists)");
    ensure!(t.table.growth_left == st.growth_left(), "wf: growth_left + items + tombstones == capacity");
    Ok(st)
}

/// wf of the unallocated singleton
pub fn wf_singleton(t: &RawTable<u64>) -> Chk {
    ensure!(t.table.bucket_mask == 0, "wf(singleton): bucket_mask");
    ensure!(t.table.items == 0 && t.table.growth_left == 0, "wf(singleton): counts");
    ensure!(t.table.ctrl.as_ptr() as *const u8 == Group::static_empty().as_ptr() as *const u8, "wf(singleton): shared static group");
    Ok(())
}

/// Draw a symbolic Inv-state with N buckets: wf by construction, reach assumed (non-trivial
/// only when the table has more than one group).  `need_reach=false` gives the C05 setting.
pub fn draw_state<S: Src, const N: usize>(s: &mut S, need_reach: bool) -> Option<St<N>> {
    if s.native() {
        return Some(gen_state::<S, N>(s, need_reach));
    }
    let (st, ok) = St::<N>::draw(s);
    if !s.assume(ok) {
        return None;
    }
    if !s.assume(st.accounting_ok()) {
        return None;
    }
    if need_reach && N > Group::WIDTH {
        if !s.assume(st.reach_all()) {
            return None;
        }
    }
    Some(st)
}

impl<const N: usize> St<N> {
    /// `o` holds exactly this state's elements plus one more copy of `v` (multisets)
    pub fn same_view_plus<const M: usize>(&self, o: &St<M>, v: u64) -> bool {
        if o.items() != self.items() + 1 {
            return false;
        }
        if o.count(v) != self.count(v) + 1 {
            return false;
        }
        for_upto!(i, N, {
            if self.kind[i] == K_FULL && self.val[i] != v && self.count(self.val[i]) != o.count(self.val[i]) {
                return false;
            }
        });
        true
    }
}

/// first EMPTY/DELETED bucket in probe order from `pos` (a reachable placement, by definition F2)
pub fn spec_first_special<const N: usize>(st: &St<N>, pos: usize) -> usize {
    let w = Group::WIDTH;
    let groups = if N > w { N / w } else { 1 };
    let mut found = usize::MAX;
    for_upto!(k, groups, {
        let p = (pos + w * (k * (k + 1) / 2)) & (N - 1);
        for_upto!(j, (if N < w { N } else { w }), {
            let idx = (p + j) & (N - 1);
            if found == usize::MAX && st.kind[idx] != K_FULL {
                found = idx;
            }
        });
    });
    found
}

/// Constructive generation of an Inv state for the native sampling engine: tombstones anywhere,
/// elements placed at the first special bucket of their probe sequence (so F2 holds while only
/// EMPTY->FULL / DELETED->FULL transitions happen), then some elements turned into tombstones
/// again only where that cannot cut a probe chain... kept simple: deletions never create EMPTY.
pub fn gen_state<S: Src, const N: usize>(s: &mut S, need_reach: bool) -> St<N> {
    let mut st = St::<N> { kind: [K_EMPTY; N], val: [0; N] };
    let cap = St::<N>::CAP;
    // occupancy profile: sometimes empty, sometimes saturated, otherwise anything
    let total = match s.below(6) {
        0 => 0,
        1 | 2 => cap,
        _ => s.below(cap + 1),
    };
    let dels = if total == 0 { 0 } else { match s.below(4) { 0 => 0, 1 => s.below(total + 1), 2 => total - s.below(2).min(total), _ => s.below(total + 1) } };
    let items = total - dels;
    if need_reach {
        // fill `total` buckets by probing, then mark `dels` of them DELETED (a FULL->DELETED change
        // never removes an EMPTY from any window and never adds one: F2 is preserved)
        for_upto!(e_, total, {
            let v = s.u64();
            let slot = spec_first_special(&st, (hash_of(v) as usize) & (N - 1));
            st.kind[slot] = K_FULL;
            st.val[slot] = v;
        });
        // turn `dels` of them into tombstones (FULL -> DELETED never cuts a probe chain); tables
        // smaller than a group never hold tombstones in a quiescent state (F4), so not there
        if N >= Group::WIDTH {
            let mut d = 0;
            let start = s.below(N);
            for_upto!(j, N, {
                let idx = (start + j * 5) & (N - 1);
                if d < dels && st.kind[idx] == K_FULL {
                    st.kind[idx] = K_DELETED;
                    d += 1;
                }
            });
        }
        // then a random history of specification-level removals (erase rule F3) and insertions
        let ops = if s.below(3) == 0 { 0 } else { s.below(2 * N + 1) };
        for_upto!(o_, ops, {
            let idx = s.below(N);
            if st.kind[idx] == K_FULL && s.below(3) != 0 {
                st.kind[idx] = if spec_erase_writes_deleted(&st, idx) { K_DELETED } else { K_EMPTY };
            } else if st.items() + st.deleted() < cap || st.deleted() > 0 {
                let v = s.u64();
                let slot = spec_first_special(&st, (hash_of(v) as usize) & (N - 1));
                if st.kind[slot] == K_DELETED || st.items() + st.deleted() < cap {
                    st.kind[slot] = K_FULL;
                    st.val[slot] = v;
                }
            }
        });
        // sometimes: every element removed again (a table with len() == 0 that still holds tombstones)
        if s.below(8) == 0 {
            let start = s.below(N);
            for_upto!(j, N, {
                let idx = (start + j * 3) & (N - 1);
                if st.kind[idx] == K_FULL {
                    st.kind[idx] = if spec_erase_writes_deleted(&st, idx) { K_DELETED } else { K_EMPTY };
                }
            });
        }
        let _ = (items, dels);
    } else {
        // arbitrary placement
        let start = s.below(N);
        let mut placed = 0;
        for_upto!(j, N, {
            let idx = (start + j * 3) & (N - 1);
            if placed < total {
                if placed < dels {
                    st.kind[idx] = K_DELETED;
                } else {
                    st.kind[idx] = K_FULL;
                    st.val[idx] = s.u64();
                }
                placed += 1;
            }
        });
        // shuffle which are tombstones
        let rot = s.below(N);
        let mut k2 = [K_EMPTY; N];
        let mut v2 = [0u64; N];
        for_upto!(j, N, {
            k2[(j * 7 + rot) & (N - 1)] = st.kind[j];
            v2[(j * 7 + rot) & (N - 1)] = st.val[j];
        });
        st.kind = k2;
        st.val = v2;
    }
    st
}

/// length of the maximal run of non-EMPTY buckets around i, counted as erase must see it
pub fn spec_erase_writes_deleted<const N: usize>(st: &St<N>, i: usize) -> bool {
    let w = Group::WIDTH;
    if N < w {
        return false; // padding EMPTY bytes are inside every window
    }
    // consecutive non-EMPTY going down from i-1, and going up from i (circular), each capped at W
    let mut before = 0;
    let mut run = true;
    for_upto!(d, w, {
        if run && st.kind[i.wrapping_sub(1 + d) & (N - 1)] != K_EMPTY {
            before += 1;
        } else {
            run = false;
        }
    });
    let mut after = 0;
    let mut run = true;
    for_upto!(d, w, {
        if run && st.kind[(i + d) & (N - 1)] != K_EMPTY {
            after += 1;
        } else {
            run = false;
        }
    });
    before + after >= w
}

