// ---------------------------------------------------------------------------
// Iterator obligations (C09) and retain / extract_if / drain (C10) for HashMap, HashSet, HashTable.
// ---------------------------------------------------------------------------

/// Walk an ExactSizeIterator with a symbolic switch point: `cut` calls of next() with exact
/// size_hint/len at every step, then either fold() the rest, or clone and continue both, or
/// plain next() to the end; returns the multiset of ids seen.
fn walk_exact<I, F>(mut it: I, total: usize, cut: usize, mode: usize, id_of: F) -> Result<Vec<u64>, &'static str>
where
    I: ExactSizeIterator + Clone,
    F: Fn(I::Item) -> u64,
{
    let mut seen = Vec::new();
    let mut remaining = total;
    let mut n = 0;
    while n < cut {
        ensure!(it.size_hint() == (remaining, Some(remaining)) && it.len() == remaining, "size_hint() == (r, Some(r)) and len() == r at every step");
        match it.next() {
            Some(x) => {
                seen.push(id_of(x));
                remaining -= 1;
            }
            None => {
                ensure!(remaining == 0, "iterator ends only after yielding every element");
                break;
            }
        }
        n += 1;
    }
    ensure!(it.len() == remaining, "len() is the true remaining count");
    match mode {
        0 => {
            // fold / for_each visits the same multiset as repeated next()
            let rest: Vec<u64> = it.fold(Vec::new(), |mut v, x| {
                v.push(id_of(x));
                v
            });
            ensure!(rest.len() == remaining, "fold visits exactly the remaining elements");
            seen.extend(rest);
        }
        1 => {
            // a clone continues independently from the same position
            let c = it.clone();
            let mut a: Vec<u64> = Vec::new();
            while let Some(x) = it.next() {
                a.push(id_of(x));
            }
            let mut b: Vec<u64> = c.map(|x| id_of(x)).collect();
            ensure!(a.len() == remaining && b.len() == remaining, "cloned iterator and original both yield the remaining elements");
            let mut a2 = a.clone();
            a2.sort();
            b.sort();
            ensure!(a2 == b, "cloned iterator yields the same elements as the original");
            seen.extend(a);
            ensure!(it.next().is_none() && it.next().is_none(), "None after exhaustion, repeatedly");
        }
        _ => {
            while let Some(x) = it.next() {
                seen.push(id_of(x));
                remaining -= 1;
                ensure!(it.size_hint() == (remaining, Some(remaining)), "size_hint exact while draining");
            }
            ensure!(remaining == 0, "iterator yields every element");
            ensure!(it.next().is_none() && it.next().is_none(), "None after exhaustion, repeatedly");
        }
    }
    seen.sort();
    Ok(seen)
}
/// same for iterators that are not Clone (mutable / owning ones)
fn walk_noclone<I, F>(mut it: I, total: usize, cut: usize, mode: usize, id_of: F) -> Result<Vec<u64>, &'static str>
where
    I: ExactSizeIterator,
    F: Fn(I::Item) -> u64,
{
    let mut seen = Vec::new();
    let mut remaining = total;
    let mut n = 0;
    while n < cut {
        ensure!(it.size_hint() == (remaining, Some(remaining)) && it.len() == remaining, "size_hint() == (r, Some(r)) and len() == r at every step");
        match it.next() {
            Some(x) => {
                seen.push(id_of(x));
                remaining -= 1;
            }
            None => {
                ensure!(remaining == 0, "iterator ends only after yielding every element");
                break;
            }
        }
        n += 1;
    }
    if mode == 0 {
        let rest: Vec<u64> = it.fold(Vec::new(), |mut v, x| {
            v.push(id_of(x));
            v
        });
        ensure!(rest.len() == remaining, "fold visits exactly the remaining elements");
        seen.extend(rest);
    } else {
        while let Some(x) = it.next() {
            seen.push(id_of(x));
            remaining -= 1;
            ensure!(it.len() == remaining, "len() exact while draining");
        }
        ensure!(remaining == 0, "iterator yields every element");
        ensure!(it.next().is_none() && it.next().is_none(), "None after exhaustion, repeatedly");
    }
    seen.sort();
    Ok(seen)
}

fn ids_sorted(m: &Ents) -> Vec<u64> {
    let mut v: Vec<u64> = m.iter().map(|e| e.0).collect();
    v.sort();
    v
}
fn vals_sorted(m: &Ents) -> Vec<u64> {
    let mut v: Vec<u64> = m.iter().map(|e| e.1).collect();
    v.sort();
    v
}

pub fn ob_map_iter<S: Src, const N: usize>(s: &mut S) -> Chk {
    let (mut map, m) = match start_map::<S, N>(s) {
        Some(x) => x,
        None => return Ok(()),
    };
    let total = m.len();
    let cut = s.below(total + 2);
    let mode = s.below(3);
    let want = ids_sorted(&m);
    let wantv = vals_sorted(&m);
    match s.below(11) {
        0 => ensure!(walk_exact(map.iter(), total, cut, mode, |(k, _)| k.id)? == want, "iter yields every stored pair exactly once"),
        1 => ensure!(walk_exact(map.keys(), total, cut, mode, |k| k.id)? == want, "keys yields every key exactly once"),
        2 => ensure!(walk_exact(map.values(), total, cut, mode, |v| *v)? == wantv, "values yields every value exactly once"),
        3 => ensure!(walk_noclone(map.iter_mut(), total, cut, mode, |(k, _)| k.id)? == want, "iter_mut yields every stored pair exactly once"),
        4 => ensure!(walk_noclone(map.values_mut(), total, cut, mode, |v| *v)? == wantv, "values_mut yields every value exactly once"),
        5 => ensure!(walk_noclone(map.into_iter(), total, cut, mode, |(k, _)| k.id)? == want, "into_iter yields every stored pair exactly once"),
        6 => ensure!(walk_noclone(map.into_keys(), total, cut, mode, |k| k.id)? == want, "into_keys yields every key exactly once"),
        7 => ensure!(walk_noclone(map.into_values(), total, cut, mode, |v| v)? == wantv, "into_values yields every value exactly once"),
        8 => {
            let size0 = map.allocation_size();
            ensure!(walk_noclone(map.drain(), total, cut, mode, |(k, _)| k.id)? == want, "drain yields every stored pair exactly once");
            ensure!(map.is_empty() && map.allocation_size() == size0, "after drain the map is empty and keeps its allocation");
            sub!(check_table(&map.table, &Vec::new()));
        }
        9 => {
            // (&map).into_iter / (&mut map).into_iter forward to iter / iter_mut
            let a: Vec<u64> = { let mut v: Vec<u64> = (&map).into_iter().map(|(k, _)| k.id).collect(); v.sort(); v };
            let b: Vec<u64> = { let mut v: Vec<u64> = (&mut map).into_iter().map(|(k, _)| k.id).collect(); v.sort(); v };
            ensure!(a == want && b == want, "IntoIterator for &HashMap / &mut HashMap");
        }
        _ => {
            use crate::hash_map::{IntoIter, Iter, Keys, Values};
            ensure!(Iter::<Key, u64>::default().next().is_none() && Keys::<Key, u64>::default().len() == 0, "default-constructed iterators are empty");
            ensure!(Values::<Key, u64>::default().next().is_none() && IntoIter::<Key, u64>::default().next().is_none(), "default-constructed iterators are empty");
        }
    }
    Ok(())
}

pub fn ob_set_table_iter<S: Src, const N: usize>(s: &mut S) -> Chk {
    let mode = s.below(3);
    if s.bool() {
        let (mut set, m) = match start_set::<S, N>(s) {
            Some(x) => x,
            None => return Ok(()),
        };
        let total = m.len();
        let cut = s.below(total + 2);
        let want = ids_sorted(&m);
        match s.below(4) {
            0 => ensure!(walk_exact(set.iter(), total, cut, mode, |k| k.id)? == want, "HashSet::iter yields every element exactly once"),
            1 => ensure!(walk_noclone(set.into_iter(), total, cut, mode, |k| k.id)? == want, "HashSet::into_iter yields every element exactly once"),
            2 => {
                ensure!(walk_noclone(set.drain(), total, cut, mode, |k| k.id)? == want, "HashSet::drain yields every element exactly once");
                ensure!(set.is_empty(), "after drain the set is empty");
                sub!(check_table(&set.map.table, &Vec::new()));
            }
            _ => {
                use crate::hash_set::Iter as SIter;
                ensure!(SIter::<Key>::default().next().is_none(), "default-constructed set iterator is empty");
            }
        }
    } else {
        let (mut t, m) = match start_table::<S, N>(s) {
            Some(x) => x,
            None => return Ok(()),
        };
        let total = m.len();
        let cut = s.below(total + 2);
        let want = ids_sorted(&m);
        match s.below(5) {
            0 => ensure!(walk_exact(t.iter(), total, cut, mode, |k| k.id)? == want, "HashTable::iter yields every element exactly once"),
            1 => ensure!(walk_noclone(t.iter_mut(), total, cut, mode, |k| k.id)? == want, "HashTable::iter_mut yields every element exactly once"),
            2 => ensure!(walk_noclone(t.into_iter(), total, cut, mode, |k| k.id)? == want, "HashTable::into_iter yields every element exactly once"),
            3 => {
                ensure!(walk_noclone(t.drain(), total, cut, mode, |k| k.id)? == want, "HashTable::drain yields every element exactly once");
                ensure!(t.is_empty(), "after drain the table is empty");
                let d = read_dyn(&t.raw)?;
                ensure!(d.ents().is_empty(), "after drain the table is a valid empty table");
            }
            _ => {
                use crate::hash_table::Iter as TIter;
                ensure!(TIter::<Key>::default().next().is_none(), "default-constructed table iterator is empty");
            }
        }
    }
    Ok(())
}

/// drain / extract_if dropped early or leaked (mem::forget), retain (C10, C02 leak clause)
pub fn ob_drain_extract<S: Src, const N: usize>(s: &mut S) -> Chk {
    let (mut map, mut m) = match start_map::<S, N>(s) {
        Some(x) => x,
        None => return Ok(()),
    };
    let total = m.len();
    let cut = s.below(total + 2);
    let size0 = map.allocation_size();
    let buckets0 = map.table.buckets();
    match s.below(5) {
        0 | 1 => {
            // drain consumed to a cut then dropped: empty, usable, same allocation
            let mut got = Vec::new();
            {
                let mut d = map.drain();
                for _ in 0..cut {
                    if let Some((k, _)) = d.next() {
                        got.push(k.id);
                    }
                }
            }
            got.sort();
            got.dedup();
            ensure!(got.len() == core::cmp::min(cut, total), "drain yields distinct stored elements");
            ensure!(map.is_empty() && map.allocation_size() == size0 && map.table.buckets() == buckets0, "however much of a drain is consumed the map is empty and keeps its allocation");
            sub!(check_table(&map.table, &Vec::new()));
            ensure!(map.capacity() == spec_cap_of(buckets0 - 1) || buckets0 == 1, "after drain the full capacity is available again");
            map.insert(pk(7), 7);
            ensure!(map.get(&pk(7)) == Some(&7), "the map is usable after a drain");
        }
        2 => {
            // leaked drain: the map is a valid (emptied) map
            let mut d = map.drain();
            for _ in 0..cut {
                d.next();
            }
            core::mem::forget(d);
            let dd = read_dyn(&map.table)?;
            ensure!(dd.ents().is_empty() && map.len() == 0, "after a leaked drain the map is a valid empty map");
            map.insert(pk(9), 9);
            ensure!(map.len() == 1, "the map is usable after a leaked drain");
        }
        3 => {
            // extract_if dropped after `cut` next() calls
            let mask = s.u64();
            let mut visited: Vec<u64> = Vec::new();
            let mut yielded: Vec<u64> = Vec::new();
            {
                let mut e = map.extract_if(|k, v| {
                    visited.push(k.id);
                    *v = v.wrapping_add(3);
                    (mask >> (k.id & 63)) & 1 == 1
                });
                for _ in 0..cut {
                    match e.next() {
                        Some((k, _)) => yielded.push(k.id),
                        None => break,
                    }
                }
            }
            let mut vs = visited.clone();
            vs.sort();
            vs.dedup();
            ensure!(vs.len() == visited.len(), "extract_if visits no element twice");
            for id in yielded.iter() {
                ensure!((mask >> (id & 63)) & 1 == 1 && visited.contains(id), "extract_if yields only visited elements for which the predicate returned true");
            }
            for id in visited.iter() {
                if (mask >> (id & 63)) & 1 == 1 {
                    ensure!(yielded.contains(id), "extract_if yields every visited element for which the predicate returned true");
                }
            }
            m.retain(|e| !yielded.contains(&e.0));
            for e in m.iter_mut() {
                if visited.contains(&e.0) {
                    e.1 = e.1.wrapping_add(3);
                }
            }
            ensure!(map.len() == m.len(), "extract_if: unvisited and rejected elements stay in the map");
            sub!(check_table(&map.table, &m));
        }
        _ => {
            // set / table counterparts of retain and extract_if
            let mask = s.u64();
            let (mut t, mut mt) = match start_table::<S, N>(s) {
                Some(x) => x,
                None => return Ok(()),
            };
            let cut2 = s.below(mt.len() + 2);
            let mut yielded: Vec<(u64, u64)> = Vec::new();
            {
                let mut e = t.extract_if(|k| (mask >> (k.id & 63)) & 1 == 1);
                for _ in 0..cut2 {
                    match e.next() {
                        Some(k) => yielded.push((k.id, k.stamp)),
                        None => break,
                    }
                }
            }
            for y in yielded.iter() {
                ensure!((mask >> (y.0 & 63)) & 1 == 1 && remove_inst(&mut mt, y.0, y.1), "HashTable::extract_if yields stored elements selected by the predicate, each once");
            }
            let d = read_dyn(&t.raw)?;
            let mut w = mt.clone();
            w.sort();
            ensure!(d.reach_all() && d.ents() == w, "HashTable::extract_if: everything not yielded stays");
        }
    }
    Ok(())
}
