// ---------------------------------------------------------------------------
// HashTable obligations (C06, C10, C15): a multiset keyed by caller-supplied hashes.
// Elements are `Key` (duplicates of equal ids allowed; stamp tells instances apart).
// ---------------------------------------------------------------------------
use crate::hash_table::{Entry as TEntry, HashTable};

pub type Table = HashTable<Key>;

fn th(k: &Key) -> u64 {
    callback_point(CB_HASH);
    hash_of(k.id)
}
fn mk_table<const N: usize>(st: &St<N>) -> Table {
    HashTable { raw: build_t::<Key, N>(st) }
}
fn start_table<S: Src, const N: usize>(s: &mut S) -> Option<(Table, Ents)> {
    if s.native() && s.below(10) == 0 {
        return Some((HashTable::new(), Vec::new()));
    }
    if s.native() && N >= 2 * Group::WIDTH && s.below(5) == 0 {
        // directed profile: a single element displaced beyond its first probe window, which holds
        // nothing but tombstones (everything that once filled it has been removed)
        let w = Group::WIDTH;
        let mut st = St::<N> { kind: [K_EMPTY; N], val: [0; N] };
        let h = s.below(N);
        for_upto!(j, w, {
            st.kind[(h + j) & (N - 1)] = K_DELETED;
        });
        let e = (h as u64) | (s.u64() & !0xFFu64);
        let slot = (h + w + s.below(3)) & (N - 1);
        // buckets between the end of the window and the element must not be EMPTY-before-element in
        // the same window: place it at the first bucket of the second probe window
        let slot = if slot == ((h + w) & (N - 1)) { slot } else { (h + w) & (N - 1) };
        st.kind[slot] = K_FULL;
        st.val[slot] = e;
        return Some((mk_table(&st), ents_of(&st).into_iter().map(|e| (e.0, 0, e.2)).collect()));
    }
    let st = draw_state::<S, N>(s, true)?;
    Some((mk_table(&st), ents_of(&st).into_iter().map(|e| (e.0, 0, e.2)).collect()))
}
fn count_id(m: &Ents, id: u64) -> usize {
    m.iter().filter(|e| e.0 == id).count()
}
fn remove_inst(m: &mut Ents, id: u64, stamp: u64) -> bool {
    match m.iter().position(|e| e.0 == id && e.2 == stamp) {
        Some(i) => {
            m.remove(i);
            true
        }
        None => false,
    }
}

pub fn ob_table_ops<S: Src, const N: usize>(s: &mut S) -> Chk {
    let (mut t, mut m) = match start_table::<S, N>(s) {
        Some(x) => x,
        None => return Ok(()),
    };
    let id = draw_key(s, &m);
    let h = hash_of(id);
    let present = count_id(&m, id);
    let size0 = t.allocation_size();
    match s.below(14) {
        0 => {
            let r = t.find(h, |k| k.id == id).map(|k| (k.id, k.stamp));
            match r {
                Some((i2, st)) => ensure!(i2 == id && m.iter().any(|e| e.0 == id && e.2 == st), "HashTable::find returns a stored element accepted by the closure"),
                None => ensure!(present == 0, "HashTable::find: every element inserted with this hash and not removed is found"),
            }
        }
        1 => {
            match t.find_mut(h, |k| k.id == id) {
                Some(k) => {
                    ensure!(k.id == id, "HashTable::find_mut returns a matching element");
                    let old = k.stamp;
                    k.stamp = 0x77;
                    ensure!(remove_inst(&mut m, id, old), "HashTable::find_mut returns a stored element");
                    m.push((id, 0, 0x77));
                }
                None => ensure!(present == 0, "HashTable::find_mut: None only when nothing matches"),
            }
        }
        2 => {
            // find_entry + remove + re-insertion through the returned vacant entry
            match t.find_entry(h, |k| k.id == id) {
                Ok(o) => {
                    let (k, v) = o.remove();
                    ensure!(k.id == id && remove_inst(&mut m, id, k.stamp), "OccupiedEntry::remove returns the stored element");
                    if s.bool() {
                        let id2 = if s.bool() { id } else { id ^ (1 << 20) }; // same hash either way
                        let o2 = v.insert(Key { id: id2, stamp: 0x99 });
                        ensure!(o2.get().id == id2, "VacantEntry::insert after remove stores the element in the freed slot");
                        m.push((id2, 0, 0x99));
                    }
                }
                Err(_) => ensure!(present == 0, "HashTable::find_entry: Err only when nothing matches"),
            }
        }
        3 => {
            // entry: Occupied iff present; includes states with no spare capacity
            match t.entry(h, |k| k.id == id, th) {
                TEntry::Occupied(mut o) => {
                    ensure!(present > 0 && o.get().id == id, "HashTable::entry Occupied only for a stored matching element");
                    o.get_mut().stamp ^= 0; // no change
                }
                TEntry::Vacant(v) => {
                    ensure!(present == 0, "HashTable::entry Vacant only when nothing matches");
                    if s.bool() {
                        v.insert(Key { id, stamp: 0x55 });
                        m.push((id, 0, 0x55));
                    }
                }
            }
        }
        4 => {
            let e = t.entry(h, |k| k.id == id, th).and_modify(|k| k.stamp = 0x66).or_insert(Key { id, stamp: 0x44 });
            ensure!(e.get().id == id, "Entry::or_insert returns an entry for the element");
            if present > 0 {
                let stored = e.get().stamp;
                ensure!(stored == 0x66, "Entry::and_modify modifies the stored element");
                // one of the matching instances was modified
                let i = m.iter().position(|x| x.0 == id).unwrap();
                let _ = i;
                let mut done = false;
                for x in m.iter_mut() {
                    if x.0 == id && !done {
                        done = true;
                    }
                }
                // which instance is unspecified when duplicates exist: recompute from the table below
                m = Vec::new();
            } else {
                m.push((id, 0, 0x44));
            }
        }
        5 | 6 => {
            // insert_unique: duplicates counted; tombstone reuse without growth
            let gl0 = t.raw.table.growth_left;
            let o = t.insert_unique(h, Key { id, stamp: 0x33 }, th);
            ensure!(o.get().id == id && o.get().stamp == 0x33, "HashTable::insert_unique returns the inserted element");
            m.push((id, 0, 0x33));
            if gl0 > 0 {
                ensure!(t.allocation_size() == size0, "insert_unique with spare capacity does not reallocate");
            }
        }
        7 => {
            let mask = s.u64();
            let mut calls = 0usize;
            t.retain(|k| {
                calls += 1;
                (mask >> (k.id & 63)) & 1 == 1
            });
            ensure!(calls == m.len(), "HashTable::retain calls the predicate exactly once per element");
            m.retain(|e| (mask >> (e.0 & 63)) & 1 == 1);
        }
        8 => {
            t.clear();
            m.clear();
            ensure!(t.allocation_size() == size0, "clear keeps the allocation");
        }
        9 => {
            let add = s.below(3 * N + 2);
            t.reserve(add, th);
            ensure!(t.capacity() >= m.len() + add, "reserve(n): capacity() >= len() + n");
        }
        10 => {
            let mn = if s.bool() { 0 } else { s.below(4 * N) };
            let cap0 = t.capacity();
            t.shrink_to(mn, th);
            ensure!(t.capacity() >= core::cmp::max(m.len(), core::cmp::min(mn, cap0)), "shrink_to(m): capacity() >= max(len, min(m, previous capacity))");
            ensure!(t.allocation_size() <= size0, "shrink_to never enlarges the allocation");
            if m.is_empty() && mn == 0 {
                ensure!(t.allocation_size() == 0, "shrink_to(0) of an empty table frees the allocation");
            }
        }
        11 => {
            // iter_hash: every stored element with this hash, none twice
            let mut got: Vec<(u64, u64)> = t.iter_hash(h).map(|k| (k.id, k.stamp)).collect();
            let n = got.len();
            got.sort();
            got.dedup();
            ensure!(got.len() == n, "iter_hash yields no element twice");
            for e in m.iter() {
                if hash_of(e.0) == h {
                    ensure!(got.contains(&(e.0, e.2)), "iter_hash yields every stored element inserted with this hash");
                }
            }
            for g in got.iter() {
                ensure!(m.iter().any(|e| e.0 == g.0 && e.2 == g.1), "iter_hash yields only stored elements");
            }
        }
        12 => {
            for k in t.iter_hash_mut(h) {
                if k.id == id {
                    k.stamp = 0x22;
                }
            }
            for e in m.iter_mut() {
                if e.0 == id {
                    e.2 = 0x22;
                }
            }
        }
        _ => {
            t.shrink_to_fit(th);
            ensure!(t.capacity() >= m.len() && t.allocation_size() <= size0, "shrink_to_fit keeps every element and never enlarges");
        }
    }
    let d = read_dyn(&t.raw)?;
    ensure!(d.reach_all(), "Inv: every stored element is reachable by the probe sequence of its hash");
    ensure!(t.len() == d.ents().len(), "len() equals the number of stored elements, duplicates counted");
    if !m.is_empty() || t.is_empty() {
        let mut w: Vec<(u64, u64, u64)> = m.clone();
        w.sort();
        ensure!(d.ents() == w, "contents: stored elements equal the reference multiset");
    }
    Ok(())
}

/// get_many_mut (HashTable and HashMap): results in request order, each present key its own
/// entry, absent keys None, never two references to one entry (panic instead), writes land in
/// exactly the requested entries; also with closures that match several entries (C15, C05).
pub fn ob_get_many_mut<S: Src, const N: usize>(s: &mut S) -> Chk {
    let (mut map, mut m) = match start_map::<S, N>(s) {
        Some(x) => x,
        None => return Ok(()),
    };
    let ids = [draw_key(s, &m), draw_key(s, &m), draw_key(s, &m), draw_key(s, &m)];
    let k = s.below(5);
    let dup = (0..k).any(|i| (0..i).any(|j| ids[i] == ids[j] && model_get(&m, ids[i]).is_some()));
    let nv = s.u64();
    let keys: [Key; 4] = [pk(ids[0]), pk(ids[1]), pk(ids[2]), pk(ids[3])];
    macro_rules! go {
        ($n:literal) => {{
            let mut refs: [&Key; $n] = [&keys[0]; $n];
            for i in 0..$n {
                refs[i] = &keys[i];
            }
            let kv = s.bool();
            let r = std::panic::catch_unwind(std::panic::AssertUnwindSafe(|| {
                let mut seen: Vec<(Option<u64>, Option<u64>)> = Vec::new();
                if kv {
                    let res = map.get_many_key_value_mut(refs);
                    for (i, e) in res.into_iter().enumerate() {
                        match e {
                            Some((k, v)) => {
                                seen.push((Some(k.id), Some(*v)));
                                *v = nv.wrapping_add(i as u64);
                            }
                            None => seen.push((None, None)),
                        }
                    }
                } else {
                    let res = map.get_many_mut(refs);
                    for (i, e) in res.into_iter().enumerate() {
                        match e {
                            Some(v) => {
                                seen.push((None, Some(*v)));
                                *v = nv.wrapping_add(i as u64);
                            }
                            None => seen.push((None, None)),
                        }
                    }
                }
                seen
            }));
            match r {
                Err(_) => ensure!(dup, "get_many_mut panics only when two requests resolve to the same entry"),
                Ok(seen) => {
                    ensure!(!dup, "get_many_mut must not hand out two references to one entry");
                    for i in 0..$n {
                        match model_get(&m, ids[i]) {
                            Some(j) => {
                                ensure!(seen[i].1 == Some(m[j].1), "get_many_mut: each present key yields its own entry, in request order");
                                m[j].1 = nv.wrapping_add(i as u64);
                            }
                            None => ensure!(seen[i].1.is_none(), "get_many_mut: absent keys yield None"),
                        }
                    }
                }
            }
        }};
    }
    match k {
        0 => go!(0),
        1 => go!(1),
        2 => go!(2),
        3 => go!(3),
        _ => go!(4),
    }
    check_table(&map.table, &m)
}

/// HashTable::get_many_mut with a closure that may match several entries (unlawful): distinct
/// entries or a panic, never aliasing; nothing else changes.
pub fn ob_table_get_many_mut<S: Src, const N: usize>(s: &mut S) -> Chk {
    let (mut t, m) = match start_table::<S, N>(s) {
        Some(x) => x,
        None => return Ok(()),
    };
    let ids = [draw_key(s, &m), draw_key(s, &m), draw_key(s, &m)];
    let sloppy = s.bool();
    let hashes = [hash_of(ids[0]), hash_of(ids[1]), hash_of(ids[2])];
    let r = std::panic::catch_unwind(std::panic::AssertUnwindSafe(|| {
        let res = t.get_many_mut(hashes, |i, k| if sloppy { hash_of(k.id) == hashes[i] } else { k.id == ids[i] });
        let mut ptrs: Vec<usize> = Vec::new();
        let mut out: Vec<Option<(u64, u64)>> = Vec::new();
        for (i, e) in res.into_iter().enumerate() {
            match e {
                Some(k) => {
                    ptrs.push(k as *mut Key as usize);
                    out.push(Some((k.id, k.stamp)));
                    k.stamp = 0x1000 + i as u64;
                }
                None => out.push(None),
            }
        }
        (ptrs, out)
    }));
    if r.is_err() && !sloppy {
        // with a lawful closure the call may panic only when two requests resolve to the same entry
        let clash = (0..3).any(|i| (0..i).any(|j| ids[i] == ids[j] && count_id(&m, ids[i]) > 0));
        ensure!(clash, "HashTable::get_many_mut panics only when two requests resolve to the same entry (equal hashes alone are not a conflict)");
    }
    if let Ok((ptrs, out)) = r {
        let mut p2 = ptrs.clone();
        p2.sort();
        p2.dedup();
        ensure!(p2.len() == ptrs.len(), "HashTable::get_many_mut never returns two references to the same entry");
        for (i, e) in out.iter().enumerate() {
            match e {
                Some((id2, st)) => {
                    ensure!(m.iter().any(|x| x.0 == *id2 && x.2 == *st), "HashTable::get_many_mut returns stored elements");
                    ensure!(if sloppy { hash_of(*id2) == hashes[i] } else { *id2 == ids[i] }, "HashTable::get_many_mut: result i was accepted by the closure for request i");
                }
                None => {
                    if !sloppy {
                        ensure!(count_id(&m, ids[i]) == 0, "HashTable::get_many_mut: None only for absent keys");
                    }
                }
            }
        }
    }
    let d = read_dyn(&t.raw)?;
    ensure!(d.reach_all() && d.ents().len() == m.len(), "Inv and element count after get_many_mut");
    Ok(())
}
