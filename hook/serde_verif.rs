// Child module of hashbrown::external_trait_impls::serde (hook).
pub fn cautious(hint: Option<usize>) -> usize {
    super::size_hint::cautious(hint)
}
