"""A small Rust lexer: enough to find items and match braces reliably.

Tokens are (kind, text, start, end) with kind in
  'id' 'num' 'str' 'char' 'life' 'punct' 'comment'
Whitespace is dropped; comments are kept as tokens only when keep_comments=True.
"""
import re

_ID = re.compile(r'[A-Za-z_][A-Za-z0-9_]*')
_NUM = re.compile(r'[0-9][0-9A-Za-z_]*(\.[0-9][0-9A-Za-z_]*)?')


class LexError(Exception):
    pass


def lex(src, keep_comments=False):
    toks = []
    i, n = 0, len(src)
    while i < n:
        c = src[i]
        if c in ' \t\r\n':
            i += 1
            continue
        if src.startswith('//', i):
            j = src.find('\n', i)
            j = n if j < 0 else j
            if keep_comments:
                toks.append(('comment', src[i:j], i, j))
            i = j
            continue
        if src.startswith('/*', i):
            depth, j = 1, i + 2
            while j < n and depth:
                if src.startswith('/*', j):
                    depth += 1
                    j += 2
                elif src.startswith('*/', j):
                    depth -= 1
                    j += 2
                else:
                    j += 1
            if depth:
                raise LexError('unterminated block comment')
            if keep_comments:
                toks.append(('comment', src[i:j], i, j))
            i = j
            continue
        # raw strings / byte strings
        m = re.match(r'(br|r|b)?(#*)"', src[i:]) if c in 'rb"' else None
        if m and (m.group(1) in ('r', 'br') or (m.group(2) == '')):
            prefix, hashes = m.group(1) or '', m.group(2)
            if prefix in ('r', 'br'):
                close = '"' + hashes
                j = src.find(close, i + m.end())
                if j < 0:
                    raise LexError('unterminated raw string')
                j += len(close)
                toks.append(('str', src[i:j], i, j))
                i = j
                continue
            # ordinary or byte string
            j = i + m.end()
            while j < n and src[j] != '"':
                j += 2 if src[j] == '\\' else 1
            if j >= n:
                raise LexError('unterminated string')
            j += 1
            toks.append(('str', src[i:j], i, j))
            i = j
            continue
        if c == "'" or (c == 'b' and src.startswith("b'", i)):
            k = i + (2 if c == 'b' else 1)
            # char literal: '\x..' or 'c' followed by closing quote; otherwise lifetime
            if k < n and src[k] == '\\':
                j = src.find("'", k + 2)
                toks.append(('char', src[i:j + 1], i, j + 1))
                i = j + 1
                continue
            if k + 1 < n and src[k + 1] == "'" and src[k] != "'":
                toks.append(('char', src[i:k + 2], i, k + 2))
                i = k + 2
                continue
            m2 = _ID.match(src, k)
            if c == "'" and m2:
                toks.append(('life', src[i:m2.end()], i, m2.end()))
                i = m2.end()
                continue
            raise LexError('bad quote at %d' % i)
        m = _ID.match(src, i)
        if m:
            toks.append(('id', m.group(0), i, m.end()))
            i = m.end()
            continue
        m = _NUM.match(src, i)
        if m:
            # do not swallow `..` of a range (0..=1) as a decimal point
            j = m.end()
            txt = m.group(0)
            if '.' in txt and src.startswith('..', i + txt.index('.')):
                j = i + txt.index('.')
            toks.append(('num', src[i:j], i, j))
            i = j
            continue
        toks.append(('punct', c, i, i + 1))
        i += 1
    return toks


OPEN = {'(': ')', '[': ']', '{': '}'}
CLOSE = {')', ']', '}'}


def match_close(toks, k):
    """toks[k] is an opening bracket; return index of its matching close."""
    assert toks[k][1] in OPEN
    depth = 0
    for j in range(k, len(toks)):
        t = toks[j]
        if t[0] == 'punct':
            if t[1] in OPEN:
                depth += 1
            elif t[1] in CLOSE:
                depth -= 1
                if depth == 0:
                    return j
    raise LexError('unbalanced bracket')


def texts(toks):
    return [t[1] for t in toks if t[0] != 'comment']
