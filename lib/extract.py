"""Mechanical extraction of real function text from /repo into Verus units.

Nothing here types or re-types code: a function item is located by (file, enclosing
block header regex, fn name), copied token for token, passed through the fixed rewrite
table R (each rule purely syntactic, hit counts recorded) and only then are ghost
contract chunks spliced in.  A self-check re-lexes the generated text, removes the
spliced chunks and compares the remaining token stream with R(source tokens).
"""
import hashlib
import re
from rustlex import lex, match_close, LexError, OPEN


class ExtractError(Exception):
    """anchor lost / ambiguous / unsupported construct -> unit is UNDECIDED, never a violation"""


class Tok:
    __slots__ = ('kind', 'text', 'gap')

    def __init__(self, kind, text, gap):
        self.kind, self.text, self.gap = kind, text, gap  # gap: '', ' ' or '\n'

    def __repr__(self):
        return 'Tok(%r)' % self.text


def _with_gaps(src, raw):
    out = []
    prev_end = None
    for (k, t, s, e) in raw:
        if prev_end is None:
            gap = ''
        else:
            between = src[prev_end:s]
            gap = '' if between == '' else ('\n' if '\n' in between else ' ')
        out.append(Tok(k, t, gap))
        prev_end = e
    return out


def locate_fn(path, ctx_re, name, nth=None):
    """Return dict(tokens=[Tok], line0, line1, sha, text) for fn `name` whose innermost enclosing
    block header matches ctx_re (None = file top level)."""
    src = open(path).read()
    raw = lex(src)
    # enclosing-header stack
    stack = []  # (header_text, open_index)
    last_boundary = 0
    found = []
    i = 0
    n = len(raw)
    while i < n:
        k, t, s, e = raw[i]
        if k == 'punct' and t == '{':
            hdr = ' '.join(x[1] for x in raw[last_boundary:i])
            stack.append(hdr)
            last_boundary = i + 1
        elif k == 'punct' and t == '}':
            if stack:
                stack.pop()
            last_boundary = i + 1
        elif k == 'punct' and t == ';':
            last_boundary = i + 1
        elif k == 'id' and t == 'fn' and i + 1 < n and raw[i + 1][1] == name and raw[i + 1][0] == 'id':
            inner = stack[-1] if stack else None
            # strip leading attributes from header text for matching
            ok = (ctx_re is None and inner is None) or (
                ctx_re is not None and inner is not None and re.search(ctx_re, _strip_attrs(inner)))
            if ok:
                found.append(i)
        i += 1
    if not found:
        raise ExtractError('anchor lost: fn %s (context %r) not found in %s' % (name, ctx_re, path))
    if nth is None and len(found) > 1:
        raise ExtractError('anchor ambiguous: fn %s (context %r) found %d times in %s' % (name, ctx_re, len(found), path))
    fi = found[nth or 0]
    # walk back over qualifiers
    start = fi
    while start > 0:
        pk, pt = raw[start - 1][0], raw[start - 1][1]
        if pk == 'id' and pt in ('pub', 'const', 'unsafe', 'async', 'extern', 'default'):
            start -= 1
        elif pt == ')' and start >= 3:
            # pub(crate) / pub(super)
            j = start - 1
            while j > 0 and raw[j][1] != '(':
                j -= 1
            if j > 0 and raw[j - 1][1] == 'pub':
                start = j - 1
            else:
                break
        elif pk == 'str' and start >= 2 and raw[start - 2][1] == 'extern':
            start -= 2
        else:
            break
    # find body open brace: first '{' at bracket depth 0 after fn name
    j = fi + 2
    depth = 0
    while j < n:
        t = raw[j][1]
        if raw[j][0] == 'punct':
            if t in '([':
                depth += 1
            elif t in ')]':
                depth -= 1
            elif t == '{' and depth == 0:
                break
            elif t == ';' and depth == 0:
                raise ExtractError('fn %s has no body' % name)
        j += 1
    end = match_close(raw, j)
    item = raw[start:end + 1]
    text = src[item[0][2]:item[-1][3]]
    line0 = src.count('\n', 0, item[0][2]) + 1
    line1 = src.count('\n', 0, item[-1][3]) + 1
    return dict(tokens=_with_gaps(src, item), line0=line0, line1=line1,
                sha=hashlib.sha256(text.encode()).hexdigest(), text=text, file=path,
                body_open=j - start)


def _strip_attrs(h):
    # remove "# [ ... ]" groups from a space-joined header
    out, depth, i = [], 0, 0
    parts = h.split(' ')
    while i < len(parts):
        p = parts[i]
        if depth == 0 and p == '#' and i + 1 < len(parts) and parts[i + 1] in ('[', '!'):
            i += 1
            if parts[i] == '!':
                i += 1
            depth = 0
            # consume bracket group
            while i < len(parts):
                if parts[i] == '[':
                    depth += 1
                elif parts[i] == ']':
                    depth -= 1
                    if depth == 0:
                        i += 1
                        break
                i += 1
            continue
        out.append(p)
        i += 1
    return ' '.join(out)


# ---------------------------------------------------------------------------
# rewrite table R
# ---------------------------------------------------------------------------

def _find_close(toks, k):
    depth = 0
    for j in range(k, len(toks)):
        t = toks[j]
        if t.kind == 'punct':
            if t.text in OPEN:
                depth += 1
            elif t.text in ')]}':
                depth -= 1
                if depth == 0:
                    return j
    raise ExtractError('unbalanced bracket in item')


def _split_args(toks):
    """split a token list at top-level commas"""
    args, cur, depth = [], [], 0
    for t in toks:
        if t.kind == 'punct' and t.text in OPEN:
            depth += 1
        elif t.kind == 'punct' and t.text in ')]}':
            depth -= 1
        if t.kind == 'punct' and t.text == ',' and depth == 0:
            args.append(cur)
            cur = []
        else:
            cur.append(t)
    if cur:
        args.append(cur)
    return args


def T(text, gap=' ', kind=None):
    if kind is None:
        kind = 'id' if re.match(r'[A-Za-z_]', text) else ('num' if text[0].isdigit() else 'punct')
    return Tok(kind, text, gap)


def rewrite(toks, rules, hits, extra=None):
    """Apply the rewrite table.  `rules` is the set of rule names enabled for the unit."""
    out = []
    i = 0
    n = len(toks)

    def hit(r):
        hits[r] = hits.get(r, 0) + 1

    while i < n:
        t = toks[i]
        nxt = toks[i + 1] if i + 1 < n else None
        # R1 attributes
        if t.text == '#' and nxt is not None and nxt.text in ('[', '!'):
            j = i + 1
            if toks[j].text == '!':
                j += 1
            k = _find_close(toks, j)
            hit('R1_attribute_dropped')
            i = k + 1
            if i < n and toks[i].gap == '':
                toks[i].gap = ' '
            continue
        # R2 debug assertions -> proof obligations
        if t.kind == 'id' and t.text in ('debug_assert', 'debug_assert_eq', 'debug_assert_ne') \
                and nxt is not None and nxt.text == '!':
            k0 = i + 2
            k1 = _find_close(toks, k0)
            args = _split_args(toks[k0 + 1:k1])
            args = [rewrite(a, rules, hits, extra) for a in args]
            if 'R2_debug_assert_dropped' in rules:
                # unit opts out (assertion about something outside the unit's dialect); drop incl. `;`
                hit('R2_debug_assert_dropped')
                i = k1 + 1
                if i < n and toks[i].text == ';':
                    i += 1
                continue
            new = [T('assert', t.gap), T('(', '')]
            if t.text == 'debug_assert':
                new += args[0]
            else:
                op = '==' if t.text.endswith('_eq') else '!='
                new += [T('(', '')] + args[0] + [T(')', '')] + [T(op[0], ' '), T(op[1], '')] + [T('(', ' ')] + args[1] + [T(')', '')]
            new.append(T(')', ''))
            out += new
            hit('R2_debug_assert_to_assert')
            i = k1 + 1
            continue
        # R3 likely / unlikely
        if t.kind == 'id' and t.text in ('likely', 'unlikely') and nxt is not None and nxt.text == '(' \
                and not (out and out[-1].text in ('.', 'fn', '::')):
            hit('R3_likely_unlikely_identity')
            nxt.gap = t.gap
            i += 1
            continue
        # R10 const qualifier on fn, pub(..) -> pub
        if t.kind == 'id' and t.text == 'const' and nxt is not None and nxt.text in ('fn', 'unsafe'):
            hit('R10_const_fn_qualifier_dropped')
            nxt.gap = t.gap
            i += 1
            continue
        if t.kind == 'id' and t.text == 'pub' and nxt is not None and nxt.text == '(':
            k = _find_close(toks, i + 1)
            out.append(t)
            hit('R10_pub_restricted_to_pub')
            i = k + 1
            continue
        if extra is not None:
            r = extra(toks, i, out, hit)
            if r is not None:
                i = r
                continue
        out.append(t)
        i += 1
    return out


def name_return(toks, hits):
    """R9: `-> T {` in the signature becomes `-> (r: T) {` so a postcondition can name the result."""
    # find signature end: first '{' at depth 0
    depth = 0
    for j, t in enumerate(toks):
        if t.kind == 'punct':
            if t.text in '([':
                depth += 1
            elif t.text in ')]':
                depth -= 1
            elif t.text == '{' and depth == 0:
                body = j
                break
    else:
        raise ExtractError('no body')
    # find '->' at depth 0 before body
    depth = 0
    arrow = None
    for j in range(body):
        t = toks[j]
        if t.kind == 'punct':
            if t.text in '([<':
                depth += 1 if t.text != '<' else 0
            elif t.text in ')]':
                depth -= 1
        if t.kind == 'id' and t.text == 'where' and depth == 0:
            break       # arrows in a where clause belong to Fn bounds, not to the function
        if t.text == '-' and j + 1 < body and toks[j + 1].text == '>' and toks[j + 1].gap == '' and depth == 0:
            arrow = j
    if arrow is None:
        return toks, body
    # type ends at 'where' (depth 0) or body
    end = body
    depth = 0
    for j in range(arrow + 2, body):
        t = toks[j]
        if t.kind == 'punct' and t.text in '([':
            depth += 1
        elif t.kind == 'punct' and t.text in ')]':
            depth -= 1
        elif t.kind == 'id' and t.text == 'where' and depth == 0:
            end = j
            break
    new = toks[:arrow + 2] + [T('(', ' '), T('r', ''), T(':', ''), ] + \
        [Tok(toks[arrow + 2].kind, toks[arrow + 2].text, ' ')] + toks[arrow + 3:end] + [T(')', '')] + toks[end:]
    hits['R9_return_value_named'] = hits.get('R9_return_value_named', 0) + 1
    return new, body + 4


def emit(toks):
    s = []
    for t in toks:
        s.append(t.gap)
        s.append(t.text)
    return ''.join(s)


# ---------------------------------------------------------------------------
# contract files (.vspec)
# ---------------------------------------------------------------------------

def parse_vspec(path):
    """Sections:
        //@ fn <key>
        //@ sig            (requires/ensures text, spliced between signature and body)
        //@ loop <k>       (invariant/decreases text, spliced after the k-th loop head, 1-based)
        //@ before <src>   (ghost text spliced before the first statement starting with <src>)
        //@ top            (ghost text at the start of the body)
    """
    specs = {}
    cur = None
    sec = None
    for line in open(path).read().split('\n'):
        m = re.match(r'\s*//@\s*(\w+)\s*(.*)$', line)
        if m:
            kw, arg = m.group(1), m.group(2).strip()
            if kw == 'fn':
                cur = specs.setdefault(arg, dict(sig='', loops={}, before=[], after=[], top='', attr='', tail=''))
                sec = None
            elif kw == 'sig':
                sec = ('sig',)
            elif kw == 'top':
                sec = ('top',)
            elif kw == 'attr':
                sec = ('attr',)
            elif kw == 'tail':
                sec = ('tail',)
            elif kw == 'loop':
                sec = ('loop', int(arg))
                cur['loops'][int(arg)] = ''
            elif kw == 'before':
                cur['before'].append([arg, ''])
                sec = ('before', len(cur['before']) - 1)
            elif kw == 'after':
                cur['after'].append([arg, ''])
                sec = ('after', len(cur['after']) - 1)
            elif kw == 'end':
                sec = None
            continue
        if cur is None or sec is None:
            continue
        if sec[0] == 'tail':
            cur['tail'] += line + '\n'
        elif sec[0] == 'attr':
            cur['attr'] += line + '\n'
        elif sec[0] == 'sig':
            cur['sig'] += line + '\n'
        elif sec[0] == 'top':
            cur['top'] += line + '\n'
        elif sec[0] == 'loop':
            cur['loops'][sec[1]] += line + '\n'
        elif sec[0] == 'before':
            cur['before'][sec[1]][1] += line + '\n'
        elif sec[0] == 'after':
            cur['after'][sec[1]][1] += line + '\n'
    return specs


S_OPEN = '/*@+*/'
S_CLOSE = '/*@-*/'


def _chunk(text):
    return Tok('chunk', '\n' + S_OPEN + '\n' + text.rstrip('\n') + '\n' + S_CLOSE + '\n', '')


def splice(toks, body, spec):
    """Insert ghost chunks. `body` = index of the body's opening brace."""
    if spec is None:
        return toks
    out = list(toks)
    inserts = []  # (index, chunk) insert BEFORE token index
    if spec.get('attr', '').strip():
        inserts.append((0, _chunk(spec['attr'])))
    if spec['sig'].strip():
        inserts.append((body, _chunk(spec['sig'])))
    if spec['top'].strip():
        inserts.append((body + 1, _chunk(spec['top'])))
    # loops: k-th `loop` / `while` / `for` keyword inside body; chunk goes before the loop's `{`
    loop_heads = []
    j = body + 1
    while j < len(out):
        t = out[j]
        if t.kind == 'id' and t.text in ('loop', 'while', 'for') and not (out[j - 1].text in ('.', '::')):
            # find the `{` that opens the loop body (depth 0 w.r.t. parens)
            depth = 0
            k = j + 1
            while k < len(out):
                x = out[k]
                if x.kind == 'punct':
                    if x.text in '([':
                        depth += 1
                    elif x.text in ')]':
                        depth -= 1
                    elif x.text == '{' and depth == 0:
                        break
                k += 1
            loop_heads.append(k)
        j += 1
    for k, text in spec['loops'].items():
        if k < 1 or k > len(loop_heads):
            raise ExtractError('contract names loop %d but the function has %d loops' % (k, len(loop_heads)))
        if text.strip():
            inserts.append((loop_heads[k - 1], _chunk(text)))
    for prefix, text in spec['before']:
        # `#N rest`: the N-th statement (in text order) starting with `rest`
        nth = 1
        m_ = re.match(r'#(\d+)\s+(.*)$', prefix)
        if m_:
            nth, prefix = int(m_.group(1)), m_.group(2)
        ptoks = [x[1] for x in lex(prefix)]
        pos = None
        for j in range(body + 1, len(out) - len(ptoks) + 1):
            prev = out[j - 1].text
            if prev in (';', '{', '}') and [x.text for x in out[j:j + len(ptoks)]] == ptoks:
                nth -= 1
                if nth == 0:
                    pos = j
                    break
        if pos is None:
            raise ExtractError('contract anchor lost: no statement starts with %r' % prefix)
        inserts.append((pos, _chunk(text)))
    if spec.get('tail', '').strip():
        # ghost text at the very end of the function body (before its closing brace)
        inserts.append((len(out) - 1, _chunk(spec['tail'])))
    for prefix, text in spec.get('after', []):
        ptoks = [x[1] for x in lex(prefix)]
        pos = None
        for j in range(body + 1, len(out) - len(ptoks) + 1):
            prev = out[j - 1].text
            if prev in (';', '{', '}') and [x.text for x in out[j:j + len(ptoks)]] == ptoks:
                pos = j
                break
        if pos is None:
            raise ExtractError('contract anchor lost: no statement starts with %r' % prefix)
        depth = 0
        k = pos
        while k < len(out):
            x = out[k]
            if x.kind == 'punct' and x.text in OPEN:
                depth += 1
            elif x.kind == 'punct' and x.text in ')]}':
                depth -= 1
            elif x.kind == 'punct' and x.text == ';' and depth == 0:
                break
            k += 1
        inserts.append((k + 1, _chunk(text)))
    for idx, ch in sorted(inserts, key=lambda p: -p[0]):
        out.insert(idx, ch)
    return out


def self_check(generated_text, expected_tokens):
    """Remove spliced chunks from the generated text and compare token texts."""
    pieces = []
    pos = 0
    while True:
        a = generated_text.find(S_OPEN, pos)
        if a < 0:
            pieces.append(generated_text[pos:])
            break
        pieces.append(generated_text[pos:a])
        b = generated_text.find(S_CLOSE, a)
        if b < 0:
            raise ExtractError('self-check: unterminated chunk')
        pos = b + len(S_CLOSE)
    got = [t[1] for t in lex(''.join(pieces))]
    want = []
    for t in expected_tokens:
        want += [x[1] for x in lex(t.text)]
    if got != want:
        for a, (g, w) in enumerate(zip(got, want)):
            if g != w:
                raise ExtractError('self-check mismatch at token %d: got %r want %r' % (a, g, w))
        raise ExtractError('self-check mismatch: lengths %d vs %d' % (len(got), len(want)))
    return len(got)


def extract_fn(path, ctx_re, name, spec, rules, hits, nth=None, extra=None, rename=None):
    item = locate_fn(path, ctx_re, name, nth)
    toks = rewrite(item['tokens'], rules, hits, extra)
    toks, body = name_return(toks, hits)
    if rename:
        for t in toks:
            if t.kind == 'id' and t.text == name:
                t.text = rename
                break
    expected = list(toks)
    toks = splice(toks, body, spec)
    text = emit(toks)
    ntok = self_check(text, expected)
    item.update(generated=text, ntokens=ntok)
    del item['tokens']
    return item


def extract_closure(path, ctx_re, fn_name, anchor, new_sig, spec, rules, hits, nth=None, extra=None):
    """Extract the block body of a closure inside function `fn_name`: `anchor` is the token text
    that ends with the closure's opening brace (e.g. `guard(self, move |self_| {`).  The closure
    header is replaced by the synthesized function signature `new_sig` (captures become
    parameters); the body is copied token for token and goes through the same rewrite table."""
    item = locate_fn(path, ctx_re, fn_name, nth)
    toks = item['tokens']
    atoks = [x[1] for x in lex(anchor)]
    pos = None
    for j in range(len(toks) - len(atoks) + 1):
        if [t.text for t in toks[j:j + len(atoks)]] == atoks:
            pos = j + len(atoks) - 1
            break
    if pos is None:
        raise ExtractError('closure anchor lost in fn %s: %r' % (fn_name, anchor))
    close = _find_close(toks, pos)
    body = toks[pos:close + 1]
    src_text = emit(body)
    sig = []
    prev_end = None
    for (k, t, s_, e_) in lex(new_sig):
        sig.append(Tok(k, t, '' if (prev_end is not None and s_ == prev_end) else ' '))
        prev_end = e_
    sig[0].gap = ''
    body[0].gap = ' '
    toks2 = rewrite(sig + body, rules, hits, extra)
    toks2, bidx = name_return(toks2, hits)
    expected = list(toks2)
    toks2 = splice(toks2, bidx, spec)
    text = emit(toks2)
    ntok = self_check(text, expected)
    import hashlib as _h
    return dict(generated=text, ntokens=ntok, line0=item['line0'], line1=item['line1'], file=path,
                sha=_h.sha256(src_text.encode()).hexdigest(), text=src_text)
