"""Verus units: which real functions go into which generated file, with which prelude,
contracts and lemma files.  Generated on every run from /repo's working tree."""
import os
import json
import re
import subprocess
import time
import extract
from extract import ExtractError

VERIF = os.path.dirname(os.path.dirname(os.path.abspath(__file__)))
REPO = os.environ.get('VERIF_REPO', '/repo')

RAW = 'src/raw/mod.rs'
TAG = 'src/control/tag.rs'
BM = 'src/control/bitmask.rs'
GEN = 'src/control/group/generic.rs'
SERDE = 'src/external_trait_impls/serde.rs'
SET = 'src/set.rs'
MAP = 'src/map.rs'
RAYON_RAW = 'src/external_trait_impls/rayon/raw.rs'


def I(file, ctx, fn, impl=None, key=None, nth=None, rename=None):
    return dict(file=file, ctx=ctx, fn=fn, impl=impl, key=key or ((impl + '::' if impl else '') + fn),
                nth=nth, rename=rename)


HSCTX = r'^impl < T , S , A > HashSet < T , S , A > where'

UNITS = {
    # C17 / C08 / C12 / C13: capacity, layout and probe arithmetic
    # C01 / C06 / C13 / C02: control-byte logic of the table core over a Vec<u8> view of the control array
    'ctrl': dict(
        widths=[16, 8],
        prelude='preludes/ctrl.rs',
        specs='contracts/ctrl.vspec',
        lemmas=['lemmas/ctrl_lemmas.rs', 'lemmas/mask_lemmas.rs', 'lemmas/probe_lemmas.rs', 'lemmas/loop_lemmas.rs', 'lemmas/accounting_lemmas.rs', 'lemmas/slot_lemmas.rs', 'lemmas/reach_lemmas.rs'],
        extra='ctrl_rules',
        items=[
            I(TAG, r'^impl Tag$', 'is_full', impl='Tag'),
            I(TAG, r'^impl Tag$', 'is_special', impl='Tag'),
            I(TAG, r'^impl Tag$', 'special_is_empty', impl='Tag'),
            I(TAG, r'^impl Tag$', 'full', impl='Tag'),
            I(RAW, None, 'h1'),
            I(RAW, None, 'bucket_mask_to_capacity'),
            I(RAW, r'^impl RawTableInner$', 'buckets', impl='RawTableInner'),
            I(RAW, r'^impl RawTableInner$', 'num_ctrl_bytes', impl='RawTableInner'),
            I(RAW, r'^impl RawTableInner$', 'is_empty_singleton', impl='RawTableInner'),
            I(RAW, r'^impl RawTableInner$', 'probe_seq', impl='RawTableInner'),
            I(RAW, r'^impl RawTableInner$', 'is_bucket_full', impl='RawTableInner'),
            I(RAW, r'^impl RawTableInner$', 'set_ctrl', impl='RawTableInner'),
            I(RAW, r'^impl RawTableInner$', 'set_ctrl_hash', impl='RawTableInner'),
            I(RAW, r'^impl RawTableInner$', 'replace_ctrl_hash', impl='RawTableInner'),
            I(RAW, r'^impl RawTableInner$', 'record_item_insert_at', impl='RawTableInner'),
            I(RAW, r'^impl RawTableInner$', 'erase', impl='RawTableInner'),
            I(RAW, r'^impl RawTableInner$', 'find_insert_slot_in_group', impl='RawTableInner'),
            I(RAW, r'^impl RawTableInner$', 'fix_insert_slot', impl='RawTableInner'),
            I(RAW, r'^impl ProbeSeq$', 'move_next', impl='ProbeSeq'),
            I(RAW, r'^impl RawTableInner$', 'find_insert_slot', impl='RawTableInner'),
            I(RAW, r'^impl RawTableInner$', 'find_inner', impl='RawTableInner'),
            I(RAW, r'^impl RawTableInner$', 'find_or_find_insert_slot_inner', impl='RawTableInner'),
            I(RAW, r'^impl RawTableInner$', 'prepare_rehash_in_place', impl='RawTableInner'),
            I(RAW, r'^impl RawTableInner$', 'prepare_insert_slot', impl='RawTableInner'),
            I(RAW, r'^impl RawTableInner$', 'clear_no_drop', impl='RawTableInner'),
        ],
    ),
    # C08 / C13 / C12: the growth decision of reserve_rehash_inner against the contracts of its callees
    'grow': dict(
        widths=[16, 8],
        prelude='preludes/grow.rs',
        specs='contracts/grow.vspec',
        lemmas=['lemmas/churn_lemmas.rs'],
        extra='grow_rules',
        items=[
            I(RAW, None, 'bucket_mask_to_capacity'),
            I(RAW, r'^impl RawTableInner$', 'reserve_rehash_inner', impl='RawTableInner'),
            I(RAW, r'^impl RawTableInner$', 'with_capacity', impl='RawTableInner'),
            I(RAW, r'^impl < T , A : Allocator > RawTable < T , A >$', 'reserve', impl='RawTable<T>', key='RawTable::reserve'),
            I(RAW, r'^impl < T , A : Allocator > RawTable < T , A >$', 'try_reserve', impl='RawTable<T>', key='RawTable::try_reserve'),
        ],
    ),
    # C01 / C06 / C14: RawTable::insert and insert_in_slot glue against the contracts of what they call
    'glue': dict(
        widths=[16, 8],
        prelude='preludes/ctrl.rs',
        prelude_extra='preludes/glue.rs',
        specs='contracts/glue.vspec',
        lemmas=['lemmas/ctrl_lemmas.rs', 'lemmas/mask_lemmas.rs', 'lemmas/probe_lemmas.rs', 'lemmas/loop_lemmas.rs'],
        extra='glue_rules',
        items=[
            I(TAG, r'^impl Tag$', 'special_is_empty', impl='Tag'),
            I(RAW, r'^impl < T , A : Allocator > RawTable < T , A >$', 'buckets', impl='RawTable<T>', key='RawTable::buckets'),
            I(RAW, r'^impl < T , A : Allocator > RawTable < T , A >$', 'insert_in_slot', impl='RawTable<T>', key='RawTable::insert_in_slot'),
            I(RAW, r'^impl < T , A : Allocator > RawTable < T , A >$', 'insert', impl='RawTable<T>', key='RawTable::insert'),
            I(RAW, r'^impl < T , A : Allocator > RawTable < T , A >$', 'erase_no_drop', impl='RawTable<T>', key='RawTable::erase_no_drop'),
            I(RAW, r'^impl < T , A : Allocator > RawTable < T , A >$', 'erase', impl='RawTable<T>', key='RawTable::erase'),
            I(RAW, r'^impl < T , A : Allocator > RawTable < T , A >$', 'remove', impl='RawTable<T>', key='RawTable::remove'),
            I(RAW, r'^impl < T , A : Allocator > RawTable < T , A >$', 'replace_bucket_with', impl='RawTable<T>', key='RawTable::replace_bucket_with'),
            I(RAW, r'^impl < T , A : Allocator > RawTable < T , A >$', 'insert_no_grow', impl='RawTable<T>', key='RawTable::insert_no_grow'),
            I(RAW, r'^impl < T , A : Allocator > RawTable < T , A >$', 'remove_entry', impl='RawTable<T>', key='RawTable::remove_entry'),
            I(RAW, r'^impl < T , A : Allocator > RawTable < T , A >$', 'get', impl='RawTable<T>', key='RawTable::get'),
            dict(I(RAW, r'^impl < T : Clone , A : Allocator \+ Clone > RawTable < T , A >$', 'clone_from_impl', impl='RawTable<T>', key='clone_from_impl::guard'),
                 closure='guard((0, &mut *self), |(index, self_)| {',
                 new_sig='unsafe fn clone_from_impl_guard(index: &usize, self_: &mut RawTable<T>)'),
        ],
    ),
    # C04 / C02: the scope-guard closure of rehash_in_place (what runs when the hasher panics)
    'guard': dict(
        widths=[16, 8],
        prelude='preludes/ctrl.rs',
        prelude_extra='preludes/guard.rs',
        specs=['contracts/ctrl.vspec', 'contracts/guard.vspec'],
        lemmas=['lemmas/ctrl_lemmas.rs', 'lemmas/mask_lemmas.rs', 'lemmas/probe_lemmas.rs', 'lemmas/loop_lemmas.rs', 'lemmas/guard_lemmas.rs'],
        extra='guard_rules',
        items=[
            I(RAW, None, 'bucket_mask_to_capacity'),
            I(RAW, r'^impl RawTableInner$', 'buckets', impl='RawTableInner'),
            I(RAW, r'^impl RawTableInner$', 'set_ctrl', impl='RawTableInner'),
            dict(I(RAW, r'^impl RawTableInner$', 'rehash_in_place', impl='RawTableInner', key='rehash_in_place::guard'),
                 closure='guard(self, move |self_| {',
                 new_sig='unsafe fn rehash_in_place_guard(self_: &mut RawTableInner, drop: Option<DropFn>, size_of: usize)'),
        ],
    ),
    # C08: the three cases of RawTable::shrink_to against the contracts of its callees
    'shrink': dict(
        widths=[16, 8],
        prelude='preludes/arith.rs',
        prelude_extra='preludes/shrink.rs',
        specs='contracts/shrink.vspec',
        lemmas=['lemmas/arith_lemmas.rs', 'lemmas/shrink_lemmas.rs'],
        extra='shrink_rules',
        items=[
            I(RAW, None, 'capacity_to_buckets'),
            I(RAW, None, 'bucket_mask_to_capacity'),
            I(RAW, r'^impl < T , A : Allocator > RawTable < T , A >$', 'buckets', impl='RawTable<T>', key='RawTable::buckets'),
            I(RAW, r'^impl < T , A : Allocator > RawTable < T , A >$', 'shrink_to', impl='RawTable<T>', key='RawTable::shrink_to'),
        ],
    ),
    'arith': dict(
        widths=[16, 8],
        prelude='preludes/arith.rs',
        specs='contracts/arith.vspec',
        lemmas=['lemmas/arith_lemmas.rs', 'lemmas/mask_lemmas.rs', 'lemmas/probe_lemmas.rs', 'lemmas/layout_lemmas.rs'],
        items=[
            I(RAW, None, 'h1'),
            I(RAW, r'^impl ProbeSeq$', 'move_next', impl='ProbeSeq'),
            I(RAW, None, 'capacity_to_buckets'),
            I(RAW, None, 'bucket_mask_to_capacity'),
            I(RAW, r'^impl TableLayout$', 'new', impl='TableLayout', key='TableLayout::new'),
            I(RAW, r'^impl TableLayout$', 'calculate_layout_for', impl='TableLayout'),
        ],
    ),
    # C09 / C19: the raw iterator core: every FULL bucket exactly once, in order; split partitions
    'iter': dict(
        widths=[16, 8],
        prelude='preludes/iter.rs',
        specs='contracts/iter.vspec',
        lemmas=['lemmas/iter_lemmas.rs'],
        extra='iter_rules',
        items=[
            I(RAW, r'^impl < T > RawIterRange < T >$', 'new', impl='RawIterRange<T>', key='RawIterRange::new'),
            I(RAW, r'^impl < T > RawIterRange < T >$', 'split', impl='RawIterRange<T>', key='RawIterRange::split'),
            I(RAW, r'^impl < T > RawIterRange < T >$', 'next_impl', impl='RawIterRange<T>', key='RawIterRange::next_impl'),
            I(RAW, r'^impl < T > RawIterRange < T >$', 'fold_impl', impl='RawIterRange<T>', key='RawIterRange::fold_impl'),
            I(RAW, r'^impl < T > Iterator for RawIter < T >$', 'next', impl='RawIter<T>', key='RawIter::next'),
            I(RAW, r'^impl < T > RawIter < T >$', 'drop_elements', impl='RawIter<T>', key='RawIter::drop_elements'),
            I(RAW, r'^impl RawTableInner$', 'drop_elements', impl='RawTableInner', key='RawTableInner::drop_elements'),
            I(RAW, r'^impl FullBucketsIndices$', 'next_impl', impl='FullBucketsIndices', key='FullBucketsIndices::next_impl'),
            I(RAW, r'^impl Iterator for FullBucketsIndices$', 'next', impl='FullBucketsIndices', key='FullBucketsIndices::next'),
        ],
    ),
    # C13 / C01 / C06 / C04: rehash_in_place (no-unwind path): every element re-placed where a lookup finds it
    'rehash': dict(
        widths=[16, 8],
        prelude='preludes/ctrl.rs',
        prelude_extra='preludes/rehash.rs',
        specs=['contracts/ctrl.vspec', 'contracts/rehash.vspec'],
        lemmas=['lemmas/ctrl_lemmas.rs', 'lemmas/mask_lemmas.rs', 'lemmas/probe_lemmas.rs', 'lemmas/loop_lemmas.rs', 'lemmas/slot_lemmas.rs', 'lemmas/rehash_lemmas.rs'],
        extra='rehash_rules',
        items=[
            I(TAG, r'^impl Tag$', 'is_full', impl='Tag'),
            I(TAG, r'^impl Tag$', 'full', impl='Tag'),
            I(RAW, None, 'h1'),
            I(RAW, None, 'bucket_mask_to_capacity'),
            I(RAW, r'^impl RawTableInner$', 'buckets', impl='RawTableInner'),
            I(RAW, r'^impl RawTableInner$', 'probe_seq', impl='RawTableInner'),
            I(RAW, r'^impl RawTableInner$', 'is_bucket_full', impl='RawTableInner'),
            I(RAW, r'^impl RawTableInner$', 'set_ctrl', impl='RawTableInner'),
            I(RAW, r'^impl RawTableInner$', 'set_ctrl_hash', impl='RawTableInner'),
            I(RAW, r'^impl RawTableInner$', 'replace_ctrl_hash', impl='RawTableInner'),
            I(RAW, r'^impl RawTableInner$', 'find_insert_slot_in_group', impl='RawTableInner'),
            I(RAW, r'^impl RawTableInner$', 'fix_insert_slot', impl='RawTableInner'),
            I(RAW, r'^impl ProbeSeq$', 'move_next', impl='ProbeSeq'),
            I(RAW, r'^impl RawTableInner$', 'find_insert_slot', impl='RawTableInner'),
            I(RAW, r'^impl RawTableInner$', 'prepare_rehash_in_place', impl='RawTableInner'),
            I(RAW, r'^impl RawTableInner$', 'is_in_same_group', impl='RawTableInner'),
            I(RAW, r'^impl RawTableInner$', 'rehash_in_place', impl='RawTableInner'),
        ],
    ),
    # C08 / C13 / C01 / C06 / C03: resize_inner: every element re-inserted into the new table
    'resize': dict(
        widths=[16, 8],
        prelude='preludes/ctrl.rs',
        prelude_extra=['preludes/rehash.rs', 'preludes/resize.rs'],
        specs=['contracts/ctrl.vspec', 'contracts/resize.vspec'],
        lemmas=['lemmas/ctrl_lemmas.rs', 'lemmas/mask_lemmas.rs', 'lemmas/probe_lemmas.rs', 'lemmas/loop_lemmas.rs', 'lemmas/slot_lemmas.rs', 'lemmas/rehash_lemmas.rs', 'lemmas/resize_lemmas.rs'],
        extra='resize_rules',
        items=[
            I(TAG, r'^impl Tag$', 'is_full', impl='Tag'),
            I(TAG, r'^impl Tag$', 'full', impl='Tag'),
            I(RAW, None, 'h1'),
            I(RAW, r'^impl RawTableInner$', 'buckets', impl='RawTableInner'),
            I(RAW, r'^impl RawTableInner$', 'probe_seq', impl='RawTableInner'),
            I(RAW, r'^impl RawTableInner$', 'is_bucket_full', impl='RawTableInner'),
            I(RAW, r'^impl RawTableInner$', 'set_ctrl', impl='RawTableInner'),
            I(RAW, r'^impl RawTableInner$', 'set_ctrl_hash', impl='RawTableInner'),
            I(RAW, r'^impl RawTableInner$', 'find_insert_slot_in_group', impl='RawTableInner'),
            I(RAW, r'^impl RawTableInner$', 'fix_insert_slot', impl='RawTableInner'),
            I(RAW, r'^impl ProbeSeq$', 'move_next', impl='ProbeSeq'),
            I(RAW, r'^impl RawTableInner$', 'find_insert_slot', impl='RawTableInner'),
            I(RAW, r'^impl RawTableInner$', 'prepare_insert_slot', impl='RawTableInner'),
            I(RAW, r'^impl RawTableInner$', 'resize_inner', impl='RawTableInner'),
        ],
    ),
    # C12 / C08 / C02: the allocation path: new_uninitialized, fallible_with_capacity, prepare_resize
    'alloc': dict(
        widths=[16, 8],
        prelude='preludes/alloc.rs',
        specs='contracts/alloc.vspec',
        lemmas=['lemmas/alloc_lemmas.rs'],
        extra='alloc_rules',
        items=[
            I(RAW, r'^impl RawTableInner$', 'new_uninitialized', impl='RawTableInner'),
            I(RAW, r'^impl RawTableInner$', 'fallible_with_capacity', impl='RawTableInner'),
            I(RAW, r'^impl RawTableInner$', 'prepare_resize', impl='RawTableInner'),
            I(RAW, r'^impl RawTableInner$', 'num_ctrl_bytes', impl='RawTableInner'),
            I(RAW, r'^impl RawTableInner$', 'allocation_info', impl='RawTableInner'),
            I(RAW, r'^impl RawTableInner$', 'allocation_size_or_zero', impl='RawTableInner'),
            I(RAW, r'^impl RawTableInner$', 'free_buckets', impl='RawTableInner'),
            I(RAW, r'^impl < T , A : Allocator > RawTable < T , A >$', 'into_allocation', impl='RawTable<T, A>|<T, A: Allocator>', key='RawTable::into_allocation'),
        ],
    ),
    # C07: HashSet's set algebra over an abstract set view
    'set': dict(
        widths=[16],
        prelude='preludes/set.rs',
        specs='contracts/set.vspec',
        lemmas=['lemmas/set_lemmas.rs'],
        extra='set_rules',
        items=[
            I(SET, r"^impl < 'a , T , S , A > Iterator for Intersection < 'a , T , S , A > where", 'next', impl="Intersection<'a, T>", key='Intersection::next'),
            I(SET, r"^impl < 'a , T , S , A > Iterator for Difference < 'a , T , S , A > where", 'next', impl="Difference<'a, T>", key='Difference::next'),
            I(SET, HSCTX, 'difference', impl='HashSet<T>', key='HashSet::difference'),
            I(SET, HSCTX, 'intersection', impl='HashSet<T>', key='HashSet::intersection'),
            I(SET, HSCTX, 'union', impl='HashSet<T>', key='HashSet::union'),
            I(SET, HSCTX, 'symmetric_difference', impl='HashSet<T>', key='HashSet::symmetric_difference'),
            I(SET, HSCTX, 'is_subset', impl='HashSet<T>', key='HashSet::is_subset'),
            I(SET, HSCTX, 'is_superset', impl='HashSet<T>', key='HashSet::is_superset'),
            I(SET, HSCTX, 'is_disjoint', impl='HashSet<T>', key='HashSet::is_disjoint'),
            I(SET, r'^impl < T , S , A > PartialEq for HashSet < T , S , A > where', 'eq', impl='HashSet<T>', key='HashSet::eq'),
            I(MAP, r'^impl < K , V , S , A > PartialEq for HashMap < K , V , S , A > where', 'eq', impl='HashMap<K, V>|<K, V: PartialEq>', key='HashMap::eq'),
        ],
    ),
    # (assoc inserted below)
    # C20: serde visitors over an arbitrary input
    'serde': dict(
        widths=[16],
        prelude='preludes/serde.rs',
        specs='contracts/serde.vspec',
        lemmas=['lemmas/serde_lemmas.rs'],
        extra='serde_rules',
        items=[
            I(SERDE, r'^mod size_hint$', 'cautious'),
            dict(I(SERDE, r"^impl < 'de , K , V , S , A > Visitor < 'de > for MapVisitor < K , V , S , A > where", 'visit_map', impl="MapVisitor<K, V>|<'de, K, V>", key='MapVisitor::visit_map'), value_type=['HashMap', '<', 'K', ',', 'V', '>']),
            dict(I(SERDE, r"^impl < 'de , T , S , A > Visitor < 'de > for SeqVisitor < T , S , A > where", 'visit_seq', impl="SeqVisitor<T>|<'de, T>", key='SeqVisitor::visit_seq'), value_type=['HashSet', '<', 'T', '>']),
            dict(I(SERDE, r"^impl < 'de , T , S , A > Deserialize < 'de > for HashSet < T , S , A > where", 'deserialize_in_place', key='SeqInPlaceVisitor::visit_seq'),
                 closure="fn visit_seq<M>(self, mut seq: M) -> Result<Self::Value, M::Error> where M: SeqAccess<'de>, {",
                 new_sig="fn visit_seq_in_place<'de, T, M: SeqAccess<'de, T>>(place: &mut HashSet<T>, mut seq: M) -> Result<(), M::Error>"),
        ],
    ),
    # C01 / C06: from buckets to keys (lemma-only unit over the contracts of units ctrl / rehash / resize)
    'assoc': dict(
        widths=[16, 8],
        prelude='preludes/ctrl.rs',
        prelude_extra=['preludes/rehash.rs'],
        specs='contracts/ctrl.vspec',
        lemmas=['lemmas/ctrl_lemmas.rs', 'lemmas/mask_lemmas.rs', 'lemmas/probe_lemmas.rs', 'lemmas/loop_lemmas.rs', 'lemmas/slot_lemmas.rs', 'lemmas/reach_lemmas.rs', 'lemmas/assoc_lemmas.rs'],
        extra='ctrl_rules',
        items=[],
    ),
    # C06 / C02: RawIterHashInner::next (HashTable::iter_hash): yielded indices are in range and FULL, terminates
    'iterhash': dict(
        widths=[16, 8],
        prelude='preludes/ctrl.rs',
        prelude_extra=['preludes/iterhash.rs'],
        specs=['contracts/ctrl.vspec', 'contracts/iterhash.vspec'],
        lemmas=['lemmas/ctrl_lemmas.rs', 'lemmas/mask_lemmas.rs', 'lemmas/probe_lemmas.rs', 'lemmas/loop_lemmas.rs', 'lemmas/iterhash_lemmas.rs'],
        extra='iter_rules',
        items=[
            I(RAW, r'^impl ProbeSeq$', 'move_next', impl='ProbeSeq'),
            dict(I(RAW, r'^impl Iterator for RawIterHashInner$', 'next', impl='RawIterHashInner', key='RawIterHashInner::next'), value_type=['usize']),
        ],
    ),
    # C15: the duplicate check of get_many_mut
    'many': dict(
        widths=[16],
        prelude='preludes/many.rs',
        specs='contracts/many.vspec',
        lemmas=['lemmas/many_lemmas.rs'],
        extra='many_rules',
        items=[
            I(RAW, r'^impl < T , A : Allocator > RawTable < T , A >$', 'get_many_mut', impl='RawTable<T>', key='RawTable::get_many_mut'),
        ],
    ),
    # C03 / C10: drop and clear glue
    'dropglue': dict(
        widths=[16],
        prelude='preludes/dropglue.rs',
        specs='contracts/dropglue.vspec',
        lemmas=['lemmas/dropglue_lemmas.rs'],
        extra='dropglue_rules',
        items=[
            I(RAW, r'^impl RawTableInner$', 'drop_inner_table', impl='RawTableInner'),
            I(RAW, r'^impl < T , A : Allocator > Drop for RawTable < T , A >$', 'drop', impl='RawTable<T, A>|<T, A: Allocator>', key='RawTable::drop'),
            I(RAW, r'^impl < T , A : Allocator > RawTable < T , A >$', 'clear_no_drop', impl='RawTable<T, A>|<T, A: Allocator>', key='RawTable::clear_no_drop'),
            I(RAW, r'^impl < T , A : Allocator > RawTable < T , A >$', 'clear', impl='RawTable<T, A>|<T, A: Allocator>', key='RawTable::clear'),
            I(RAW, r'^impl < T , A : Allocator > RawTable < T , A >$', 'drain_iter_from', impl='RawTable<T, A>|<T, A: Allocator>', key='RawTable::drain_iter_from'),
            dict(I(RAW, r"^impl < T , A : Allocator > Drop for RawDrain < '_ , T , A >$", 'drop', impl='RawDrain<T, A>|<T, A: Allocator>', key='RawDrain::drop'), in_drain=True),
            I(RAW, r'^impl < T , A : Allocator > RawTable < T , A >$', 'into_iter_from', impl='RawTable<T, A>|<T, A: Allocator>', key='RawTable::into_iter_from'),
            I(RAW, r'^impl < T , A : Allocator > IntoIterator for RawTable < T , A >$', 'into_iter', impl='RawTable<T, A>|<T, A: Allocator>', key='RawTable::into_iter'),
            I(RAW, r'^impl < T , A : Allocator > Drop for RawIntoIter < T , A >$', 'drop', impl='RawIntoIter<T, A>|<T, A: Allocator>', key='RawIntoIter::drop'),
            dict(I(RAW, r'^impl RawTableInner$', 'prepare_resize', impl='RawTableInner', key='prepare_resize::guard'),
                 closure='guard(new_table, move |self_| {',
                 new_sig='unsafe fn prepare_resize_guard<A: Allocator>(self_: &mut RawTableInner, alloc: &A, table_layout: TableLayout)'),
        ],
    ),
    # C11: clone_from_impl: control bytes verbatim, every FULL bucket a clone of the source's
    'clone': dict(
        widths=[16, 8],
        prelude='preludes/ctrl.rs',
        prelude_extra=['preludes/clone.rs'],
        specs=['contracts/ctrl.vspec', 'contracts/clone.vspec'],
        lemmas=['lemmas/ctrl_lemmas.rs', 'lemmas/mask_lemmas.rs', 'lemmas/probe_lemmas.rs', 'lemmas/loop_lemmas.rs', 'lemmas/clone_lemmas.rs'],
        extra='clone_rules',
        items=[
            I(RAW, None, 'bucket_mask_to_capacity'),
            I(RAW, r'^impl RawTableInner$', 'buckets', impl='RawTableInner'),
            I(RAW, r'^impl RawTableInner$', 'num_ctrl_bytes', impl='RawTableInner'),
            I(RAW, r'^impl < T : Clone , A : Allocator \+ Clone > RawTable < T , A >$', 'clone_from_impl', impl='RawTable<T>', key='RawTable::clone_from_impl'),
        ],
    ),
    # C19: rayon's draining producer
    'pardrain': dict(
        widths=[16, 8],
        prelude='preludes/iter.rs',
        prelude_extra=['preludes/pardrain.rs'],
        specs=['contracts/iter.vspec', 'contracts/pardrain.vspec'],
        lemmas=['lemmas/iter_lemmas.rs', 'lemmas/pardrain_lemmas.rs'],
        extra='pardrain_rules',
        items=[
            I(RAW, r'^impl < T > RawIterRange < T >$', 'new', impl='RawIterRange<T>', key='RawIterRange::new'),
            I(RAW, r'^impl < T > RawIterRange < T >$', 'split', impl='RawIterRange<T>', key='RawIterRange::split'),
            I(RAW, r'^impl < T > RawIterRange < T >$', 'next_impl', impl='RawIterRange<T>', key='RawIterRange::next_impl'),
            I(RAW, r'^impl < T > Iterator for RawIterRange < T >$', 'next', impl='RawIterRange<T>', key='RawIterRange::next'),
            I(RAYON_RAW, r'^impl < T > Drop for ParDrainProducer < T >$', 'drop', impl='ParDrainProducer<T>', key='ParDrainProducer::drop'),
            dict(I(RAYON_RAW, r'^impl < T : Send > UnindexedProducer for ParDrainProducer < T >$', 'fold_with', impl='ParDrainProducer<T>', key='ParDrainProducer::fold_with'), value_type=['T'], drop_aware=True),
            dict(I(RAYON_RAW, r'^impl < T : Send > UnindexedProducer for ParDrainProducer < T >$', 'split', impl='ParDrainProducer<T>', key='ParDrainProducer::split'), value_type=['T']),
        ],
    ),
    # C10: retain
    'retain': dict(
        widths=[16, 8],
        prelude='preludes/ctrl.rs',
        prelude_extra=['preludes/rehash.rs', 'preludes/clone.rs', 'preludes/retain.rs'],
        specs=['contracts/ctrl.vspec', 'contracts/retain.vspec'],
        lemmas=['lemmas/ctrl_lemmas.rs', 'lemmas/mask_lemmas.rs', 'lemmas/probe_lemmas.rs', 'lemmas/loop_lemmas.rs', 'lemmas/clone_lemmas.rs', 'lemmas/retain_lemmas.rs'],
        extra='retain_rules',
        items=[
            I(MAP, r'^impl < K , V , S , A : Allocator > HashMap < K , V , S , A >$', 'retain', impl='HashMap<K, V>', key='HashMap::retain'),
            I('src/table.rs', r'^impl < T , A > HashTable < T , A > where A : Allocator ,$', 'retain', impl='HashTable<T>', key='HashTable::retain'),
            I(RAW, r'^impl < T , A : Allocator > RawExtractIf < \'_ , T , A >$', 'next', impl='RawExtractIf<T>', key='RawExtractIf::next'),
        ],
    ),
}


def pow2_assert_rule(toks, i, out, hit):
    """R2b: `X.is_power_of_two()` (only occurs inside debug assertions in the extracted
    functions) -> spec predicate `spec_is_pow2(X)`; receiver must be a plain path."""
    t = toks[i]
    if t.kind == 'id' and t.text == 'is_power_of_two' and out and out[-1].text == '.':
        # receiver = trailing run of ident(.ident)* in out
        j = len(out) - 1  # the '.'
        k = j - 1
        while k >= 0 and (out[k].kind == 'id' or out[k].text == '.'):
            k -= 1
        recv = out[k + 1:j]
        if not recv:
            raise ExtractError('R2b: unsupported receiver for is_power_of_two')
        del out[k + 1:]
        out.append(extract.T('spec_is_pow2', recv[0].gap))
        out.append(extract.T('(', ''))
        recv[0].gap = ''
        out.extend(recv)
        # skip `is_power_of_two ( )`
        if not (toks[i + 1].text == '(' and toks[i + 2].text == ')'):
            raise ExtractError('R2b: is_power_of_two with arguments')
        out.append(extract.T(')', ''))
        hit('R2b_is_power_of_two_in_assertion_to_spec')
        return i + 3
    return None


_HITS = {}
_FLAGS = {}


def _args_until_close(toks, k):
    """toks[k] == '(' ; return (index of matching ')', tokens inside)"""
    j = extract._find_close(toks, k)
    return j, toks[k + 1:j]


def ctrl_rules(toks, i, out, hit):
    """R5/R6: the control-byte array is a Vec<u8> in the dialect.
       `*self.ctrl(E) = V;`              -> `self.ctrl_set(E, V);`
       `*self.ctrl(E)` / `(*self.ctrl(E))` -> `self.ctrl_get(E)`
       `Group::load(self.ctrl(E))`        -> `self.group_load(E)`   (also load_aligned)
       every access thereby carries the in-bounds precondition of the shim."""
    r = pow2_assert_rule(toks, i, out, hit)
    if r is not None:
        return r
    t = toks[i]
    n = len(toks)
    # R11: size_of of the machine-word types is a literal on the 64-bit target the units assume
    if t.text == 'mem' and i + 8 < n and [x.text for x in toks[i + 1:i + 6]] == [':', ':', 'size_of', ':', ':'] \
            and toks[i + 6].text == '<' and toks[i + 7].text in ('usize', 'u64') and [x.text for x in toks[i + 8:i + 11]] == ['>', '(', ')']:
        out.append(extract.T('8', t.gap))
        hit('R11_size_of_usize_u64_is_8_on_64bit')
        return i + 11

    def seq(k, *texts):
        return k + len(texts) <= n and all(toks[k + a].text == x for a, x in enumerate(texts))

    # R7b: `for X in (A..B).step_by(S) { BODY }` (BODY without `continue`) ->
    #      `let end_ = B; let mut it_ = A; while it_ < end_ { let X = it_; BODY it_ = it_ + S; }`
    if t.kind == 'id' and t.text == 'for' and out and out[-1].text in (';', '{', '}') and i + 4 < n \
            and toks[i + 1].kind == 'id' and toks[i + 2].text == 'in' and toks[i + 3].text == '(':
        c = extract._find_close(toks, i + 3)
        inner = toks[i + 4:c]
        dd = [k for k in range(len(inner) - 1) if inner[k].text == '.' and inner[k + 1].text == '.' and inner[k + 1].gap == '']
        if seq(c + 1, '.', 'step_by', '(') and dd:
            sc = extract._find_close(toks, c + 3)
            if toks[sc + 1].text != '{':
                raise ExtractError('R7b: unexpected shape after step_by(..)')
            bc = extract._find_close(toks, sc + 1)
            body_toks = toks[sc + 2:bc]
            if any(x.kind == 'id' and x.text == 'continue' for x in body_toks):
                raise ExtractError('R7b: continue inside a step_by loop')
            A = extract.rewrite(inner[:dd[0]], set(), _HITS, ctrl_rules)
            B = extract.rewrite(inner[dd[0] + 2:], set(), _HITS, ctrl_rules)
            S = extract.rewrite(toks[c + 4:sc], set(), _HITS, ctrl_rules)
            body = extract.rewrite(body_toks, set(), _HITS, ctrl_rules)
            T = extract.T
            X = toks[i + 1].text
            out.extend([T('let', t.gap), T('end_'), T('=')] + B + [T(';', ''), T('let', '\n'), T('mut'), T('it_'), T('=')] + A + [T(';', ''),
                        T('while', '\n'), T('it_'), T('<'), T('end_'), T('{'), T('let', '\n'), T(X), T('='), T('it_'), T(';', '')])
            out.extend(body)
            out.extend([T('it_', '\n'), T('='), T('it_'), T('+')] + S + [T(';', ''), T('}', '\n')])
            hit('R7b_for_over_stepped_range_to_while')
            return bc + 1
    # R7: `for PAT in EXPR { BODY }` -> the Rust reference's own desugaring
    #     `let mut it_ = EXPR.into_iter(); loop { match it_.next() { Some(PAT) => { BODY } None => break, } }`
    if t.kind == 'id' and t.text == 'for' and out and out[-1].text in (';', '{', '}') and not _FLAGS.get('no_r7'):
        k = i + 1
        while k < n and not (toks[k].kind == 'id' and toks[k].text == 'in'):
            k += 1
        pat = toks[i + 1:k]
        depth = 0
        b = k + 1
        while b < n:
            x = toks[b]
            if x.kind == 'punct' and x.text in '([':
                depth += 1
            elif x.kind == 'punct' and x.text in ')]':
                depth -= 1
            elif x.kind == 'punct' and x.text == '{' and depth == 0:
                break
            b += 1
        rf = _FLAGS.get('top_rules') or ctrl_rules
        expr = extract.rewrite(toks[k + 1:b], set(), _HITS, rf)
        close = extract._find_close(toks, b)
        body = extract.rewrite(toks[b + 1:close], set(), _HITS, rf)
        T = extract.T
        out.extend([T('let', t.gap), T('mut'), T('it_'), T('=')])
        if expr:
            expr[0].gap = ' '
        out.extend(expr)
        out.extend([T('.', ''), T('into_iter', ''), T('(', ''), T(')', ''), T(';', ''),
                    T('loop', '\n'), T('{'), T('match'), T('it_'), T('.', ''), T('next', ''), T('(', ''), T(')', ''), T('{'),
                    T('Some'), T('(', '')])
        if pat:
            pat[0].gap = ''
        out.extend(pat)
        out.extend([T(')', ''), T('='), T('>', ''), T('{')])
        out.extend(body)
        out.extend([T('}', '\n'), T('None'), T('='), T('>', ''), T('{'), T('break'), T(';', ''), T('}'), T('}', '\n'), T('}', '\n')])
        hit('R7_for_loop_desugared')
        return close + 1
    # R8: `&mut dyn FnMut(usize) -> bool` -> opaque `&mut EqDyn`; call `eq(E)` -> `eq.call(E)`
    if t.text == 'dyn' and seq(i + 1, 'FnMut', '(', 'usize', ')', '-', '>', 'bool'):
        out.append(extract.T('EqDyn', t.gap))
        hit('R8_dyn_FnMut_usize_bool_to_EqDyn')
        return i + 8
    if t.kind == 'id' and t.text == 'eq' and i + 1 < n and toks[i + 1].text == '(' and not (out and out[-1].text in ('.', 'fn', ':')):
        out.extend([extract.T('eq', t.gap), extract.T('.', ''), extract.T('call', '')])
        hit('R8_dyn_closure_call_to_shim_call')
        return i + 1

    # Group::load(self.ctrl(E)) / Group::load_aligned(self.ctrl(E))
    if t.text == 'Group' and seq(i + 1, ':', ':') and toks[i + 3].text in ('load', 'load_aligned') and seq(i + 4, '('):
        for recv in ('self', 'guard', 'table'):
            if seq(i + 5, recv, '.', 'ctrl', '('):
                close_inner, args = _args_until_close(toks, i + 8)
                close_outer = extract._find_close(toks, i + 4)
                if close_outer != close_inner + 1:
                    raise ExtractError('R6: unexpected shape of Group::load argument')
                name = 'group_load' if toks[i + 3].text == 'load' else 'group_load_aligned'
                out.extend([extract.T(recv, t.gap), extract.T('.', ''), extract.T(name, ''), extract.T('(', '')])
                out.extend(extract.rewrite(args, set(), _HITS, ctrl_rules))
                out.append(extract.T(')', ''))
                hit('R6_group_load_of_ctrl_pointer_to_indexed_load')
                return close_outer + 1
    # R5d: `self.ctrl_slice().fill_empty()` -> `self.ctrl_fill_empty()` (every control byte, mirror included, set to EMPTY)
    if t.text == 'self' and seq(i + 1, '.', 'ctrl_slice', '(', ')', '.', 'fill_empty', '(', ')'):
        out.extend([extract.T('self', t.gap), extract.T('.', ''), extract.T('ctrl_fill_empty', ''), extract.T('(', ''), extract.T(')', '')])
        hit('R5d_ctrl_slice_fill_to_indexed_fill')
        return i + 9
    # R6b: `G.store_aligned(self.ctrl(E))` -> `self.group_store_aligned(E, G)`
    if t.kind == 'id' and seq(i + 1, '.', 'store_aligned', '(', 'self', '.', 'ctrl', '('):
        close_inner, args = _args_until_close(toks, i + 7)
        close_outer = extract._find_close(toks, i + 3)
        if close_outer != close_inner + 1:
            raise ExtractError('R6b: unexpected shape of store_aligned argument')
        out.extend([extract.T('self', t.gap), extract.T('.', ''), extract.T('group_store_aligned', ''), extract.T('(', '')])
        out.extend(extract.rewrite(args, set(), _HITS, ctrl_rules))
        out.extend([extract.T(',', ''), extract.T(t.text), extract.T(')', '')])
        hit('R6b_group_store_to_indexed_store')
        return close_outer + 1
    # R5c: `self.ctrl(S).copy_to(self.ctrl(D), N)` -> `self.ctrl_copy(S, D, N)`
    if t.text == 'self' and seq(i + 1, '.', 'ctrl', '('):
        c1, a1 = _args_until_close(toks, i + 3)
        if seq(c1 + 1, '.', 'copy_to', '(', 'self', '.', 'ctrl', '('):
            c2, a2 = _args_until_close(toks, c1 + 7)
            c3 = extract._find_close(toks, c1 + 3)
            if toks[c2 + 1].text != ',':
                raise ExtractError('R5c: unexpected shape of copy_to')
            a3 = toks[c2 + 2:c3]
            out.extend([extract.T('self', t.gap), extract.T('.', ''), extract.T('ctrl_copy', ''), extract.T('(', '')])
            out.extend(extract.rewrite(a1, set(), _HITS, ctrl_rules))
            out.append(extract.T(',', ''))
            out.extend(extract.rewrite(a2, set(), _HITS, ctrl_rules))
            out.append(extract.T(',', ''))
            out.extend(extract.rewrite(a3, set(), _HITS, ctrl_rules))
            out.append(extract.T(')', ''))
            hit('R5c_ctrl_pointer_copy_to_indexed_copy')
            return c3 + 1
    # *self.ctrl(E) ...
    recv_len = 0
    if t.text == '*' and (seq(i + 1, 'self', '.', 'ctrl', '(') or seq(i + 1, 'self_', '.', 'ctrl', '(')):
        recv_len = 1
    elif t.text == '*' and seq(i + 1, 'self', '.', 'table', '.', 'ctrl', '('):
        recv_len = 3
    _KW = ('if', 'while', 'match', 'return', 'in', 'let', 'else', 'mut', 'move', 'unsafe', 'loop', 'break')
    if recv_len and not (out and ((out[-1].kind in ('id', 'num') and out[-1].text not in _KW) or out[-1].text in (')', ']'))):
        recv = [extract.T(x.text, '') for x in toks[i + 1:i + 1 + recv_len]]
        close, args = _args_until_close(toks, i + 3 + recv_len)
        args = extract.rewrite(args, set(), _HITS, ctrl_rules)
        nxt = toks[close + 1] if close + 1 < n else None
        nxt2 = toks[close + 2] if close + 2 < n else None
        if nxt is not None and nxt.text == '=' and not (nxt2 is not None and nxt2.text == '=' and nxt2.gap == ''):
            # assignment statement: find ';'
            k = close + 2
            depth = 0
            while k < n and not (toks[k].text == ';' and depth == 0):
                if toks[k].text in '([{':
                    depth += 1
                elif toks[k].text in ')]}':
                    depth -= 1
                k += 1
            rhs = extract.rewrite(toks[close + 2:k], set(), _HITS, ctrl_rules)
            recv[0].gap = t.gap
            out.extend(recv + [extract.T('.', ''), extract.T('ctrl_set', ''), extract.T('(', '')])
            out.extend(args)
            out.append(extract.T(',', ''))
            out.extend(rhs)
            out.append(extract.T(')', ''))
            hit('R5_ctrl_pointer_write_to_indexed_write')
            return k  # the ';' is emitted by the caller loop
        recv[0].gap = t.gap
        out.extend(recv + [extract.T('.', ''), extract.T('ctrl_get', ''), extract.T('(', '')])
        out.extend(args)
        out.append(extract.T(')', ''))
        hit('R5_ctrl_pointer_read_to_indexed_read')
        return close + 1
    return None


def guard_rules(toks, i, out, hit):
    """unit `guard`: R5/R6 as in unit ctrl but native `for` over ranges (no R7), plus
    R8b: a call through the captured drop function pointer `drop(E)` -> `drop.call(E)`."""
    t = toks[i]
    if t.kind == 'id' and t.text == 'drop' and i + 6 < len(toks) and toks[i + 1].text == '(' and toks[i + 2].kind == 'id' \
            and [x.text for x in toks[i + 3:i + 6]] == ['.', 'bucket_ptr', '('] and out and out[-1].text in ('{', ';', '}'):
        # R8b': `drop(X.bucket_ptr(E, S))` -> `X.drop_elem_at(drop, E, S)`
        c_in = extract._find_close(toks, i + 5)
        c_out = extract._find_close(toks, i + 1)
        if c_out != c_in + 1:
            raise ExtractError('R8b: unexpected shape of the drop call')
        args = extract.rewrite(toks[i + 6:c_in], set(), _HITS, guard_rules)
        T = extract.T
        out.extend([T(toks[i + 2].text, t.gap), T('.', ''), T('drop_elem_at', ''), T('(', ''), T('drop', ''), T(',', '')] + args + [T(')', '')])
        hit('R8b_type_erased_drop_recorded')
        return c_out + 1
    if t.kind == 'id' and t.text == 'drop' and i + 1 < len(toks) and toks[i + 1].text == '(' and out and out[-1].text in ('{', ';', '}'):
        out.extend([extract.T('drop', t.gap), extract.T('.', ''), extract.T('call', '')])
        hit('R8b_fn_pointer_call_to_shim_call')
        return i + 1
    _FLAGS['no_r7'] = True
    try:
        return ctrl_rules(toks, i, out, hit)
    finally:
        _FLAGS['no_r7'] = False


def grow_rules(toks, i, out, hit):
    """R8 for unit `grow`: opaque pass-through parameter types.
       `&dyn Fn(&mut Self, usize) -> u64` -> `&HasherDyn`;  `Option<unsafe fn(*mut u8)>` -> `DropFn`."""
    r = pow2_assert_rule(toks, i, out, hit)
    if r is not None:
        return r
    t = toks[i]
    n = len(toks)
    txt = [x.text for x in toks[i:i + 16]]
    if txt[:13] == ['dyn', 'Fn', '(', '&', 'mut', 'Self', ',', 'usize', ')', '-', '>', 'u64', ','] or \
            txt[:12] == ['dyn', 'Fn', '(', '&', 'mut', 'Self', ',', 'usize', ')', '-', '>', 'u64']:
        out.append(extract.T('HasherDyn', t.gap))
        hit('R8_dyn_Fn_hasher_to_HasherDyn')
        return i + 12
    if txt[:11] == ['Option', '<', 'unsafe', 'fn', '(', '*', 'mut', 'u8', ')', '>', ','] or \
            txt[:10] == ['Option', '<', 'unsafe', 'fn', '(', '*', 'mut', 'u8', ')', '>']:
        out.append(extract.T('DropFn', t.gap))
        hit('R8_option_drop_fn_to_DropFn')
        return i + 10
    return None


def shrink_rules(toks, i, out, hit):
    """unit `shrink`: R8 types of unit grow + R14 `Self::TABLE_LAYOUT` -> `Self::table_layout()`
    (an opaque function returning an arbitrary valid element layout: all element types at once)."""
    r = grow_rules(toks, i, out, hit)
    if r is not None:
        return r
    t = toks[i]
    if t.text == 'Self' and [x.text for x in toks[i + 1:i + 4]] == [':', ':', 'TABLE_LAYOUT']:
        out.extend([extract.T('Self', t.gap), extract.T(':', ''), extract.T(':', ''), extract.T('table_layout', ''), extract.T('(', ''), extract.T(')', '')])
        hit('R14_assoc_const_TABLE_LAYOUT_to_opaque_fn')
        return i + 4
    return None


def iter_rules(toks, i, out, hit):
    """unit `iter`: control pointers and buckets are indices.
       R15a  `* const u8` (a parameter / field type)  -> `usize`
       R15b  `P.add(E)` with P a plain path            -> `ptr_add(P, E)`   (in-bounds obligation)
       R15c  `.cast()`                                   -> dropped (the pointee type is not part of the view)
       R16   by-value `mut` parameters (not in the dialect): `mut self` -> `self`, the body starts with
             `let mut self_ = self;` and every later `self` of that function is renamed `self_`;
             `mut x: T` -> `x: T` and the body starts with `let mut x = x;`
       R17   the fold closure: `mut f: F` -> `f: &mut F`, bound `FnMut(B, Bucket<T>) -> B` -> trait `FoldFn<B, T>`
             (prelude: one method `call` that logs the bucket it is given), call `f(a, b)` -> `f.call(a, b)`"""
    t = toks[i]
    n = len(toks)
    if t.kind == 'id' and t.text == 'fn' and i + 1 < n and toks[i + 1].kind == 'id':
        # a function header starts: signature mode until the body's `{`
        _FLAGS['sig'] = True
        _FLAGS['mutself'] = False
        _FLAGS['rebind'] = []
        _FLAGS['foldfn'] = False
        out.append(t)
        return i + 1
    if _FLAGS.get('sig'):
        if t.kind == 'id' and t.text == 'mut' and i + 1 < n and toks[i + 1].text == 'self' and out and out[-1].text == '(':
            _FLAGS['mutself'] = True
            out.append(extract.T('self', ''))
            hit('R16_mut_self_param_rebound')
            return i + 2
        if t.kind == 'id' and t.text == 'mut' and i + 2 < n and toks[i + 1].kind == 'id' and toks[i + 2].text == ':' and out and out[-1].text in ('(', ','):
            name = toks[i + 1].text
            if toks[i + 3].text == 'F' and toks[i + 4].text in (',', ')'):
                # R17: the by-value closure is taken by mutable reference so that the postcondition can name its final state
                out.extend([extract.T(name, t.gap), extract.T(':', ''), extract.T('&'), extract.T('mut', ''), extract.T('F')])
                _FLAGS['foldfn'] = name
                hit('R17_closure_param_by_mut_ref')
                return i + 4
            _FLAGS['rebind'].append(name)
            out.append(extract.T(name, t.gap))
            hit('R16_mut_param_rebound')
            return i + 2
        if t.kind == 'id' and t.text == 'FnMut' and [x.text for x in toks[i + 1:i + 12]] == ['(', 'B', ',', 'Bucket', '<', 'T', '>', ')', '-', '>', 'B']:
            out.extend([extract.T('FoldFn', t.gap), extract.T('<', ''), extract.T('B', ''), extract.T(',', ''), extract.T('T'), extract.T('>', '')])
            hit('R17_FnMut_bound_to_FoldFn_trait')
            return i + 12
        if t.text == '{':
            _FLAGS['sig'] = False
            out.append(t)
            if _FLAGS.get('mutself'):
                out.extend([extract.T('let', '\n'), extract.T('mut'), extract.T('self_'), extract.T('='), extract.T('self'), extract.T(';', '')])
            for name in _FLAGS.get('rebind') or []:
                out.extend([extract.T('let', '\n'), extract.T('mut'), extract.T(name), extract.T('='), extract.T(name), extract.T(';', '')])
            return i + 1
    else:
        if _FLAGS.get('mutself') and t.kind == 'id' and t.text == 'self':
            out.append(extract.T('self_', t.gap))
            return i + 1
        fname = _FLAGS.get('foldfn')
        if fname and t.kind == 'id' and t.text == fname and i + 1 < n and toks[i + 1].text == '(' and not (out and out[-1].text in ('.', 'fn', ':')):
            out.extend([extract.T(fname, t.gap), extract.T('.', ''), extract.T('call', '')])
            hit('R17_closure_call_to_trait_call')
            return i + 1
    if t.text == '*' and i + 2 < n and toks[i + 1].text == 'const' and toks[i + 2].text == 'u8':
        out.append(extract.T('usize', t.gap))
        hit('R15a_ctrl_pointer_type_to_index')
        return i + 3
    if t.kind == 'id' and t.text == 'add' and out and out[-1].text == '.' and i + 1 < n and toks[i + 1].text == '(':
        j = len(out) - 1
        k = j - 1
        while k >= 0 and (out[k].kind == 'id' or out[k].text == '.'):
            k -= 1
        recv = out[k + 1:j]
        if not recv or recv[0].kind != 'id':
            raise ExtractError('R15b: unsupported receiver for pointer add')
        close, args = _args_until_close(toks, i + 1)
        args = extract.rewrite(args, set(), _HITS, iter_rules)
        del out[k + 1:]
        out.append(extract.T('ptr_add', recv[0].gap))
        out.append(extract.T('(', ''))
        recv[0].gap = ''
        out.extend(recv)
        out.append(extract.T(',', ''))
        out.extend(args)
        out.append(extract.T(')', ''))
        hit('R15b_pointer_add_to_index_add')
        return close + 1
    if t.text == '.' and i + 3 < n and [x.text for x in toks[i + 1:i + 4]] == ['cast', '(', ')']:
        hit('R15c_pointer_cast_dropped')
        return i + 4
    # R7d: `for X in self {` (the receiver is itself the iterator) -> `loop { match self.next() { Some(X) => {..} None => break, } }`
    if t.kind == 'id' and t.text == 'for' and out and out[-1].text in (';', '{', '}') and i + 4 < n and toks[i + 1].kind == 'id' \
            and toks[i + 2].text == 'in' and toks[i + 3].text == 'self' and toks[i + 4].text == '{':
        close = extract._find_close(toks, i + 4)
        body = extract.rewrite(toks[i + 5:close], set(), _HITS, iter_rules)
        T = extract.T
        out.extend([T('loop', t.gap), T('{'), T('match'), T('self'), T('.', ''), T('next', ''), T('(', ''), T(')', ''), T('{'),
                    T('Some'), T('(', ''), T(toks[i + 1].text, ''), T(')', ''), T('='), T('>', ''), T('{')])
        out.extend(body)
        out.extend([T('}', '\n'), T('None'), T('='), T('>', ''), T('{'), T('break'), T(';', ''), T('}'), T('}', '\n'), T('}', '\n')])
        hit('R7d_for_over_receiver_to_loop')
        return close + 1
    # R7 (generic): `for X in EXPR {` -> `let mut it_ = EXPR.into_iter(); loop { match it_.next() { Some(X) => {..} None => break, } }`
    if t.kind == 'id' and t.text == 'for' and out and out[-1].text in (';', '{', '}'):
        _FLAGS['top_rules'] = iter_rules
        try:
            r = ctrl_rules(toks, i, out, hit)
        finally:
            _FLAGS['top_rules'] = None
        if r is not None:
            return r
    # R21: `T::NEEDS_DROP` -> `needs_drop::<T>()` (an opaque bool per element type); `item.drop()` (Bucket::drop) ->
    #      `self.drop_bucket(&item)`: the drop of the element in a bucket is recorded by the object driving the iteration
    if t.text == 'T' and i + 3 < n and [x.text for x in toks[i + 1:i + 4]] == [':', ':', 'NEEDS_DROP']:
        T = extract.T
        out.extend([T('needs_drop', t.gap), T(':', ''), T(':', ''), T('<', ''), T('T', ''), T('>', ''), T('(', ''), T(')', '')])
        hit('R21_NEEDS_DROP_to_opaque_fn')
        return i + 4
    if t.kind == 'id' and t.text == 'item' and i + 4 < n and [x.text for x in toks[i + 1:i + 5]] == ['.', 'drop', '(', ')']:
        T = extract.T
        out.extend([T('self', t.gap), T('.', ''), T('drop_bucket', ''), T('(', ''), T('&', ''), T('item', ''), T(')', '')])
        hit('R21_bucket_drop_recorded')
        return i + 5
    # R28b: the iterator's associated type in a signature: `Self::Item` -> the concrete item type of the impl
    if t.text == 'Self' and i + 3 < n and [x.text for x in toks[i + 1:i + 4]] == [':', ':', 'Item'] and _FLAGS.get('value_type'):
        out.extend([extract.T(x, t.gap if k == 0 else '') for k, x in enumerate(_FLAGS['value_type'])])
        hit('R28b_iterator_item_type')
        return i + 4
    # R15d: NonNull<u8> is the same index: `.as_ptr()` dropped, `NonNull::new_unchecked(E)` -> `(E)`, type `NonNull<u8>` -> `usize`
    if t.text == '.' and i + 3 < n and [x.text for x in toks[i + 1:i + 4]] == ['as_ptr', '(', ')']:
        hit('R15d_nonnull_as_ptr_dropped')
        return i + 4
    if t.text == 'NonNull' and i + 4 < n and [x.text for x in toks[i + 1:i + 5]] == [':', ':', 'new_unchecked', '(']:
        hit('R15d_nonnull_new_unchecked_dropped')
        toks[i + 4].gap = t.gap
        return i + 4
    return None


def rehash_rules(toks, i, out, hit):
    """unit `rehash` (on top of ctrl_rules / grow_rules):
       R18  scope guard elided: `let mut guard = guard(self, CLOSURE);` and `mem::forget(guard);` dropped,
            `*guard` and `guard` -> `self` (unwinding is not modelled; the closure is unit `guard`)
       R19  `ptr::copy_nonoverlapping(A, B, N)` -> `self.elem_copy(A, B, N)`, `ptr::swap_nonoverlapping` -> `self.elem_swap`
       R7c  `['L:] for X in A..B { BODY }` -> `let end_ = B; let mut it_ = A; ['L:] loop { if !(it_ < end_) { break; }
            let X = it_; it_ = it_ + 1; BODY }`   (Range::next; `continue` keeps its meaning)
       R8c  `hasher(T, I)` -> `hasher.call(T, I)`
       R20  a local closure used as a function, `let F = |X: T| EXPR;`, is inlined at its calls `F(E)` -> `(EXPR[X := (E)])`"""
    t = toks[i]
    n = len(toks)

    def seq(k, *texts):
        return k + len(texts) <= n and all(toks[k + a].text == x for a, x in enumerate(texts))
    T = extract.T
    if t.kind == 'id' and t.text == 'fn':
        _FLAGS['inl'] = {}
    # R18
    if t.text == 'let' and seq(i + 1, 'mut', 'guard', '=', 'guard', '(', 'self', ','):
        c = extract._find_close(toks, i + 5)
        if toks[c + 1].text != ';':
            raise ExtractError('R18: unexpected shape of guard construction')
        hit('R18_scope_guard_elided')
        return c + 2
    if t.text == 'mem' and seq(i + 1, ':', ':', 'forget', '(', 'guard', ')', ';'):
        hit('R18_scope_guard_elided')
        return i + 8
    if t.text == '*' and seq(i + 1, 'guard', '.'):
        toks[i + 1] = T('self', toks[i + 1].gap)
        hit('R18_guard_to_self')
        return i          # re-examine `*self.ctrl(..)` (R5)
    if t.text == '*' and seq(i + 1, 'guard') and not seq(i + 2, '.'):
        out.append(T('self', t.gap))
        hit('R18_guard_deref_to_self')
        return i + 2
    if t.kind == 'id' and t.text == 'guard' and not (out and out[-1].text == '.'):
        toks[i] = T('self', t.gap)
        hit('R18_guard_to_self')
        return i          # re-examine as `self` (R5 patterns)
    # R19
    if t.text == 'ptr' and seq(i + 1, ':', ':') and toks[i + 3].text in ('copy_nonoverlapping', 'swap_nonoverlapping') and seq(i + 4, '('):
        name = 'elem_copy' if toks[i + 3].text == 'copy_nonoverlapping' else 'elem_swap'
        out.extend([T('self', t.gap), T('.', ''), T(name, '')])
        hit('R19_raw_element_move_to_table_method')
        return i + 4
    # R8c
    if t.kind == 'id' and t.text == 'hasher' and seq(i + 1, '(') and not (out and out[-1].text in ('.', 'fn')):
        out.extend([T('hasher', t.gap), T('.', ''), T('call', '')])
        hit('R8c_hasher_call_to_shim_call')
        return i + 1
    # R20
    if t.text == 'let' and i + 3 < n and toks[i + 1].kind == 'id' and seq(i + 2, '=', '|') and toks[i + 4].kind == 'id' and seq(i + 5, ':'):
        k = i + 6
        while k < n and toks[k].text != '|':
            k += 1
        e0 = k + 1
        depth = 0
        e1 = e0
        while e1 < n and not (toks[e1].text == ';' and depth == 0):
            if toks[e1].text in '([{':
                depth += 1
            elif toks[e1].text in ')]}':
                depth -= 1
            e1 += 1
        body = toks[e0:e1]
        if any(x.text in ('return', '?', 'move') for x in body):
            raise ExtractError('R20: closure body is not a plain expression')
        _FLAGS['inl'][toks[i + 1].text] = (toks[i + 4].text, body)
        hit('R20_local_closure_recorded')
        return e1 + 1
    if t.kind == 'id' and t.text in (_FLAGS.get('inl') or {}) and seq(i + 1, '(') and not (out and out[-1].text in ('.', 'fn', 'let')):
        param, body = _FLAGS['inl'][t.text]
        c, args = _args_until_close(toks, i + 1)
        args = extract.rewrite(args, set(), _HITS, rehash_rules)
        out.append(T('(', t.gap))
        for x in extract.rewrite([T(y.text, y.gap, y.kind) for y in body], set(), _HITS, rehash_rules):
            if x.kind == 'id' and x.text == param:
                out.append(T('(', x.gap))
                out.extend([T(a.text, a.gap, a.kind) for a in args])
                out.append(T(')', ''))
            else:
                out.append(x)
        out.append(T(')', ''))
        hit('R20_local_closure_inlined')
        return c + 1
    # R7c
    lab = None
    if t.kind == 'life' and seq(i + 1, ':', 'for'):
        lab = t
        f = i + 2
    elif t.kind == 'id' and t.text == 'for' and out and out[-1].text in (';', '{', '}'):
        f = i
    else:
        f = None
    if f is not None and toks[f + 1].kind == 'id' and toks[f + 2].text == 'in':
        k = f + 3
        depth = 0
        b = k
        while b < n:
            x = toks[b]
            if x.text in '([':
                depth += 1
            elif x.text in ')]':
                depth -= 1
            elif x.text == '{' and depth == 0:
                break
            b += 1
        hdr = toks[k:b]
        dd = [q for q in range(len(hdr) - 1) if hdr[q].text == '.' and hdr[q + 1].text == '.' and hdr[q + 1].gap == '']
        pd = 0
        ok = False
        for q in dd:
            if sum(1 for z in hdr[:q] if z.text in '([') == sum(1 for z in hdr[:q] if z.text in ')]'):
                ok = True
                break
        if ok:
            A = extract.rewrite(hdr[:q], set(), _HITS, rehash_rules)
            B = extract.rewrite(hdr[q + 2:], set(), _HITS, rehash_rules)
            close = extract._find_close(toks, b)
            body = extract.rewrite(toks[b + 1:close], set(), _HITS, rehash_rules)
            X = toks[f + 1].text
            g0 = (lab or toks[f]).gap
            out.extend([T('let', g0), T('end_'), T('=')] + B + [T(';', ''), T('let', '\n'), T('mut'), T('it_'), T('=')] + A + [T(';', '')])
            if lab is not None:
                out.extend([T(lab.text, '\n', 'life'), T(':', '')])
            out.extend([T('loop', '\n' if lab is None else ' '), T('{'), T('if', '\n'), T('!'), T('(', ''), T('it_', ''), T('<'), T('end_'), T(')', ''),
                        T('{'), T('break'), T(';', ''), T('}'), T('let', '\n'), T(X), T('='), T('it_'), T(';', ''),
                        T('it_', '\n'), T('='), T('it_'), T('+'), T('1'), T(';', '')])
            out.extend(body)
            out.append(T('}', '\n'))
            hit('R7c_for_over_range_to_loop')
            return close + 1
    r = grow_rules(toks, i, out, hit)
    if r is not None:
        return r
    _FLAGS['no_r7'] = True
    try:
        return ctrl_rules(toks, i, out, hit)
    finally:
        _FLAGS['no_r7'] = False


def resize_rules(toks, i, out, hit):
    """unit `resize`: the rules of unit rehash, with the scope guard around the NEW table elided the same way
       (R18': `new_table` is the table itself), `for` over the FullBucketsIndices iterator desugared by R7, and
       R19' `ptr::copy_nonoverlapping(X.bucket_ptr(A, S), Y.bucket_ptr(B, S), N)` -> `Y.elem_copy_from(X, X.bucket_ptr(A, S), Y.bucket_ptr(B, S), N)`
       (a copy between two tables names both of them)."""
    t = toks[i]
    n = len(toks)

    def seq(k, *texts):
        return k + len(texts) <= n and all(toks[k + a].text == x for a, x in enumerate(texts))
    T = extract.T
    if t.text == 'ptr' and seq(i + 1, ':', ':', 'copy_nonoverlapping', '('):
        c = extract._find_close(toks, i + 4)
        args = extract._split_args(toks[i + 5:c])
        if len(args) == 3 and len(args[0]) > 3 and len(args[1]) > 3 and args[0][1].text == '.' and args[0][2].text == 'bucket_ptr' \
                and args[1][1].text == '.' and args[1][2].text == 'bucket_ptr':
            X, Y = args[0][0].text, args[1][0].text
            out.extend([T(Y, t.gap), T('.', ''), T('elem_copy_from', ''), T('(', ''), T(X, ''), T(',', '')])
            for k, a in enumerate(args):
                out.extend(extract.rewrite(a, set(), _HITS, resize_rules))
                if k < 2:
                    out.append(T(',', ''))
            out.append(T(')', ''))
            hit('R19b_raw_element_copy_between_tables')
            return c + 1
        raise ExtractError('R19b: unexpected shape of copy_nonoverlapping')
    if t.kind == 'id' and t.text == 'for' and out and out[-1].text in (';', '{', '}'):
        # not a range: leave to R7 (ctrl_rules)
        hdr_has_range = False
        k = i + 1
        depth = 0
        while k < n and not (toks[k].text == '{' and depth == 0):
            if toks[k].text in '([':
                depth += 1
            elif toks[k].text in ')]':
                depth -= 1
            if toks[k].text == '.' and toks[k + 1].text == '.' and toks[k + 1].gap == '' and depth == 0:
                hdr_has_range = True
            k += 1
        if not hdr_has_range:
            _FLAGS['no_r7'] = False
            _FLAGS['top_rules'] = resize_rules
            try:
                return ctrl_rules(toks, i, out, hit)
            finally:
                _FLAGS['top_rules'] = None
    return rehash_rules(toks, i, out, hit)


def alloc_rules(toks, i, out, hit):
    """unit `alloc`: R15b-d of unit iter (pointer add / cast / as_ptr / NonNull::new_unchecked), R2b, R5d, and
       R15e  type `NonNull<u8>` -> `Block` (the allocated block)
       R14b  `Self::NEW` -> `Self::new_singleton()`
       R22   `E.ok_or_else(|| F)?` -> `match E { Some(v_) => v_, None => { return Err(F); } }`
       R18c  `guard(X, CLOSURE)` as a value -> `X`, and the guard's type in a signature
             `crate::scopeguard::ScopeGuard<Self, impl FnMut(&mut Self) + 'a>` -> `Self` (no-unwind path)"""
    t = toks[i]
    n = len(toks)
    T = extract.T

    def seq(k, *texts):
        return k + len(texts) <= n and all(toks[k + a].text == x for a, x in enumerate(texts))
    r = pow2_assert_rule(toks, i, out, hit)
    if r is not None:
        return r
    if t.text == 'NonNull' and seq(i + 1, '<', 'u8', '>'):
        out.append(T('Block', t.gap))
        hit('R15e_nonnull_u8_type_to_Block')
        return i + 4
    if t.text == 'Self' and seq(i + 1, ':', ':', 'NEW'):
        out.extend([T('Self', t.gap), T(':', ''), T(':', ''), T('new_singleton', ''), T('(', ''), T(')', '')])
        hit('R14b_NEW_const_to_fn')
        return i + 4
    if t.text == 'crate' and seq(i + 1, ':', ':', 'scopeguard', ':', ':', 'ScopeGuard', '<', 'Self', ','):
        k = i + 9
        depth = 1
        while k < n and depth:
            k += 1
            if toks[k].text == '<':
                depth += 1
            elif toks[k].text == '>' and toks[k - 1].text != '-':
                depth -= 1
        out.append(T('Self', t.gap))
        hit('R18c_scopeguard_type_to_Self')
        return k + 1
    if t.kind == 'id' and t.text == 'guard' and seq(i + 1, '(') and toks[i + 2].kind == 'id' and seq(i + 3, ',') and not (out and out[-1].text in ('.', 'fn', '=')):
        c = extract._find_close(toks, i + 1)
        out.append(T(toks[i + 2].text, t.gap))
        hit('R18c_scope_guard_elided')
        return c + 1
    if t.kind == 'id' and seq(i + 1, '.', 'ctrl_slice', '(', ')', '.', 'fill_empty', '(', ')'):
        out.extend([T(t.text, t.gap), T('.', ''), T('ctrl_fill_empty', ''), T('(', ''), T(')', '')])
        hit('R5d_ctrl_slice_fill_to_indexed_fill')
        return i + 9
    # R22: find `. ok_or_else ( | | F ) ?` following an expression that started at the last `=`
    if t.text == '.' and seq(i + 1, 'ok_or_else', '(', '|', '|'):
        c = extract._find_close(toks, i + 2)
        if not seq(c + 1, '?'):
            raise ExtractError('R22: ok_or_else without ?')
        F = extract.rewrite(toks[i + 5:c], set(), _HITS, alloc_rules)
        # the receiver expression: back to the token after the last `=` in out
        k = len(out) - 1
        while k >= 0 and out[k].text != '=':
            k -= 1
        if k < 0:
            raise ExtractError('R22: receiver not found')
        recv = out[k + 1:]
        del out[k + 1:]
        out.extend([T('match')] + recv + [T('{'), T('Some'), T('(', ''), T('v_', ''), T(')', ''), T('='), T('>', ''), T('v_'), T(',', ''),
                    T('None'), T('='), T('>', ''), T('{'), T('return'), T('Err'), T('(', '')] + F + [T(')', ''), T(';', ''), T('}'), T('}')])
        hit('R22_ok_or_else_question_to_match')
        return c + 2
    # R14 / R38: `Self::TABLE_LAYOUT` -> `Self::table_layout()`; `ptr::read(&self.alloc)` -> `alloc_read(&self.alloc)`;
    #            `mem::forget(self)` -> `forget_table(self)`
    if t.text == 'Self' and seq(i + 1, ':', ':', 'TABLE_LAYOUT'):
        out.extend([T('Self', t.gap), T(':', ''), T(':', ''), T('table_layout', ''), T('(', ''), T(')', '')])
        hit('R14_assoc_const_TABLE_LAYOUT_to_opaque_fn')
        return i + 4
    if t.text == 'ptr' and seq(i + 1, ':', ':', 'read', '('):
        out.append(T('alloc_read', t.gap))
        hit('R38_allocator_handle_moved_out')
        return i + 4
    if t.text == 'mem' and seq(i + 1, ':', ':', 'forget', '(', 'self', ')'):
        out.extend([T('forget_table', t.gap), T('(', ''), T('self', ''), T(')', '')])
        hit('R38_table_forgotten')
        return i + 7
    # R37: `alloc.deallocate(P, L)` -> `do_dealloc(alloc, P, L, Ghost(*self), Ghost(table_layout))`: the ghost arguments
    #      name the table and element layout so that "same block, same layout as allocated" is the call's obligation
    if t.text == 'alloc' and seq(i + 1, '.', 'deallocate', '('):
        c = extract._find_close(toks, i + 3)
        args = extract.rewrite(toks[i + 4:c], set(), _HITS, alloc_rules)
        out.extend([T('do_dealloc', t.gap), T('(', ''), T('alloc', ''), T(',', '')] + args + [T(',', ''), T('Ghost'), T('(', ''), T('*', ''), T('self', ''), T(')', ''),
                    T(',', ''), T('Ghost'), T('(', ''), T('table_layout', ''), T(')', ''), T(')', '')])
        hit('R37_deallocate_with_ghost_context')
        return c + 1
    # R15f: `P.as_ptr().sub(N)` / `P.sub(N)` on the control pointer -> `ptr_sub(&P, N)`
    if t.kind == 'id' and t.text == 'sub' and out and out[-1].text == '.' and i + 1 < n and toks[i + 1].text == '(':
        jj = len(out) - 1
        kk = jj - 1
        while kk >= 0 and (out[kk].kind == 'id' or out[kk].text == '.'):
            kk -= 1
        recv = out[kk + 1:jj]
        if not recv or recv[0].kind != 'id':
            raise ExtractError('R15f: unsupported receiver for pointer sub')
        close, args = _args_until_close(toks, i + 1)
        args = extract.rewrite(args, set(), _HITS, alloc_rules)
        del out[kk + 1:]
        out.extend([T('ptr_sub', recv[0].gap), T('(', ''), T('&', '')])
        recv[0].gap = ''
        out.extend(recv)
        out.append(T(',', ''))
        out.extend(args)
        out.append(T(')', ''))
        hit('R15f_pointer_sub_to_block_start')
        return close + 1
    return iter_rules(toks, i, out, hit)


def set_rules(toks, i, out, hit):
    """unit `set`:
       R24  the hasher / allocator type parameters are not part of the view: `, S, A>` in a type -> `>`
       R23  `X.all(|V| E)` (Iterator::all) -> `{ let mut it_ = X; let mut all_ = true; loop { match it_.next() {
            Some(V) => { if !(E) { all_ = false; break; } } None => { break; } } } all_ }`"""
    t = toks[i]
    n = len(toks)
    T = extract.T

    def seq(k, *texts):
        return k + len(texts) <= n and all(toks[k + a].text == x for a, x in enumerate(texts))
    if t.text == ',' and seq(i + 1, 'S', ',', 'A', '>'):
        out.append(T('>', ''))
        hit('R24_hasher_allocator_params_dropped')
        return i + 5
    # R25: `X.map_or(D, |v| E)` -> `match X { Some(v) => E, None => D }`
    if t.text == '.' and seq(i + 1, 'map_or', '('):
        c = extract._find_close(toks, i + 2)
        args = extract._split_args(toks[i + 3:c])
        if len(args) != 2 or args[1][0].text != '|' or args[1][2].text != '|':
            raise ExtractError('R25: unexpected shape of map_or')
        D = extract.rewrite(args[0], set(), _HITS, set_rules)
        v = args[1][1].text
        E = extract.rewrite(args[1][3:], set(), _HITS, set_rules)
        k = len(out) - 1
        depth = 0
        while k >= 0:
            x = out[k].text
            if x in (')', ']'):
                depth += 1
            elif x in ('(', '['):
                if depth == 0:
                    break
                depth -= 1
            elif depth == 0 and x in ('&', '|', '=', ';', '{', '}', '!'):
                break
            k -= 1
        recv = out[k + 1:]
        del out[k + 1:]
        out.extend([T('match')] + recv + [T('{'), T('Some'), T('(', ''), T(v, ''), T(')', ''), T('='), T('>', '')] + E + [T(',', ''), T('None'), T('='), T('>', '')] + D + [T(',', ''), T('}')])
        hit('R25_option_map_or_to_match')
        return c + 1
    if t.text == '.' and seq(i + 1, 'all', '(', '|'):
        c = extract._find_close(toks, i + 2)
        pe = i + 4
        while toks[pe].text != '|':
            pe += 1
        PAT = toks[i + 4:pe]
        E = extract.rewrite(toks[pe + 1:c], set(), _HITS, set_rules)
        # receiver: back to the previous `&&`, `||`, `=`, `;`, `{` or `(` at depth 0
        k = len(out) - 1
        depth = 0
        while k >= 0:
            x = out[k].text
            if x in (')', ']'):
                depth += 1
            elif x in ('(', '['):
                if depth == 0:
                    break
                depth -= 1
            elif depth == 0 and x in ('&', '|', '=', ';', '{', '}'):
                break
            k -= 1
        recv = out[k + 1:]
        del out[k + 1:]
        out.extend([T('{'), T('let'), T('mut'), T('it_'), T('=')] + recv + [T(';', ''), T('let'), T('mut'), T('all_'), T('='), T('true'), T(';', ''),
                    T('loop', '\n'), T('{'), T('match'), T('it_'), T('.', ''), T('next', ''), T('(', ''), T(')', ''), T('{'),
                    T('Some'), T('(', '')] + [T(x.text, x.gap, x.kind) for x in PAT] + [T(')', ''), T('='), T('>', ''), T('{'), T('if'), T('!'), T('(', '')] + E +
                   [T(')', ''), T('{'), T('all_'), T('='), T('false'), T(';', ''), T('break'), T(';', ''), T('}'), T('}'),
                    T('None'), T('='), T('>', ''), T('{'), T('break'), T(';', ''), T('}'), T('}'), T('}'), T('all_', '\n'), T('}')])
        hit('R23_iterator_all_to_loop')
        return c + 1
    return None


def glue_rules(toks, i, out, hit):
    """unit `glue`: the rules of unit guard (native `for` over ranges), plus
       R21  `T::NEEDS_DROP` -> `needs_drop::<T>()`; `X.bucket(E).drop()` -> `X.drop_bucket_at(E)` (the drop of the
            element in bucket E, recorded in the table view's drop log)"""
    t = toks[i]
    n = len(toks)
    T = extract.T
    # R19d: `B.as_ref()` on a bucket of this table -> `self.elem_ref(&B)`: the bucket must hold a live element (obligation)
    if t.kind == 'id' and i + 4 < n and [x.text for x in toks[i + 1:i + 5]] == ['.', 'as_ref', '(', ')'] and t.text == 'bucket':
        out.extend([T('self', t.gap), T('.', ''), T('elem_ref', ''), T('(', ''), T('&', ''), T('bucket', ''), T(')', '')])
        hit('R19d_element_reference_from_bucket')
        return i + 5
    # R8d: the element-equality closure `impl FnMut(&T) -> bool` is passed through untouched: opaque type `EqT`
    if t.text == 'impl' and [x.text for x in toks[i + 1:i + 9]] == ['FnMut', '(', '&', 'T', ')', '-', '>', 'bool']:
        out.append(T('EqT', t.gap))
        hit('R8d_element_eq_closure_type_to_opaque')
        return i + 9
    if t.text == 'T' and i + 3 < n and [x.text for x in toks[i + 1:i + 4]] == [':', ':', 'NEEDS_DROP']:
        out.extend([T('needs_drop', t.gap), T(':', ''), T(':', ''), T('<', ''), T('T', ''), T('>', ''), T('(', ''), T(')', '')])
        hit('R21_NEEDS_DROP_to_opaque_fn')
        return i + 4
    if t.kind == 'id' and i + 3 < n and [x.text for x in toks[i + 1:i + 4]] == ['.', 'bucket', '(']:
        c = extract._find_close(toks, i + 3)
        if [x.text for x in toks[c + 1:c + 5]] == ['.', 'drop', '(', ')']:
            args = extract.rewrite(toks[i + 4:c], set(), _HITS, glue_rules)
            out.extend([T(t.text, t.gap), T('.', ''), T('drop_bucket_at', ''), T('(', '')] + args + [T(')', '')])
            hit('R21_bucket_drop_recorded')
            return c + 5
    return guard_rules(toks, i, out, hit)


def serde_rules(toks, i, out, hit):
    """unit `serde`: R16 (by-value `mut` parameters rebound) of unit iter, and
       R27  `HashMap::with_capacity_and_hasher_in(C, S::default(), A::default())` -> `HashMap::with_capacity_view(C)` (same for HashSet)
       R28  `Self::Value` -> the visitor's value type; `M: MapAccess<'de>` -> `M: MapAccess<'de, K, V>`, `M: SeqAccess<'de>` -> `M: SeqAccess<'de, T>`"""
    t = toks[i]
    n = len(toks)
    T = extract.T

    def seq(k, *texts):
        return k + len(texts) <= n and all(toks[k + a].text == x for a, x in enumerate(texts))
    if t.text in ('HashMap', 'HashSet') and seq(i + 1, ':', ':', 'with_capacity_and_hasher_in', '('):
        c = extract._find_close(toks, i + 4)
        args = extract._split_args(toks[i + 5:c])
        if len(args) != 3 or [x.text for x in args[1]] != ['S', ':', ':', 'default', '(', ')'] or [x.text for x in args[2]] != ['A', ':', ':', 'default', '(', ')']:
            raise ExtractError('R27: unexpected arguments of with_capacity_and_hasher_in')
        out.extend([T(t.text, t.gap), T(':', ''), T(':', ''), T('with_capacity_view', ''), T('(', '')] + extract.rewrite(args[0], set(), _HITS, serde_rules) + [T(')', '')])
        hit('R27_with_capacity_and_default_hasher_to_view')
        return c + 1
    if t.text == 'Self' and seq(i + 1, ':', ':', 'Value'):
        vt = _FLAGS.get('value_type') or []
        out.extend([T(x, t.gap if k == 0 else '') for k, x in enumerate(vt)])
        hit('R28_visitor_value_type')
        return i + 4
    if t.text in ('MapAccess', 'SeqAccess') and seq(i + 1, '<', "'de", '>'):
        extra = ['K', ',', 'V'] if t.text == 'MapAccess' else ['T']
        out.extend([T(t.text, t.gap), T('<', ''), T("'de", '', 'life'), T(',', '')] + [T(x, ' ' if x != ',' else '') for x in extra] + [T('>', '')])
        hit('R28_access_trait_typed_by_entry')
        return i + 4
    # R29: the in-place visitor is a tuple struct around `&mut HashSet`: its field `self.0` is the parameter `place`
    if t.text == 'self' and seq(i + 1, '.', '0'):
        out.append(T('place', t.gap))
        hit('R29_inplace_visitor_field_to_param')
        return i + 3
    return iter_rules(toks, i, out, hit)


def many_rules(toks, i, out, hit):
    """unit `many`:
       R30a `for (I, C) in A.iter().enumerate() {` -> `for I in 0..N { let C = &A[I];`   (an array of length N)
       R30b `A[..I].contains(C)` -> `prefix_contains(&A, I, C)`
       R30c `A.map(|ptr| ptr.map(|mut ptr| ptr.as_mut()))` -> `refs_of(A)` (obligation: no two pointers alias)
       R30d `panic!(..)` -> `do_panic()`;  types `impl FnMut(usize, &T) -> bool` -> `EqMany`, `Option<&'_ mut T>` -> `Option<RefIdx>`"""
    t = toks[i]
    n = len(toks)
    T = extract.T

    def seq(k, *texts):
        return k + len(texts) <= n and all(toks[k + a].text == x for a, x in enumerate(texts))
    if t.text == 'impl' and seq(i + 1, 'FnMut', '(', 'usize', ',', '&', 'T', ')', '-', '>', 'bool'):
        out.append(T('EqMany', t.gap))
        hit('R30d_eq_closure_type_to_opaque')
        return i + 11
    if t.text == '&' and seq(i + 1, "'_", 'mut', 'T'):
        out.append(T('RefIdx', t.gap))
        hit('R30d_exclusive_ref_type_to_index')
        return i + 4
    if t.text == 'for' and seq(i + 1, '(') and toks[i + 2].kind == 'id' and seq(i + 3, ',') and toks[i + 4].kind == 'id' and seq(i + 5, ')', 'in') \
            and toks[i + 7].kind == 'id' and seq(i + 8, '.', 'iter', '(', ')', '.', 'enumerate', '(', ')', '{'):
        I_, C_, A_ = toks[i + 2].text, toks[i + 4].text, toks[i + 7].text
        out.extend([T('for', t.gap), T(I_), T('in'), T('0'), T('.', ''), T('.', ''), T('N', ''), T('{'),
                    T('let', '\n'), T(C_), T('='), T('&'), T(A_, ''), T('[', ''), T(I_, ''), T(']', ''), T(';', '')])
        hit('R30a_enumerate_over_array_to_index_loop')
        return i + 17
    if t.kind == 'id' and seq(i + 1, '[', '.', '.') and toks[i + 4].kind == 'id' and seq(i + 5, ']', '.', 'contains', '('):
        c = extract._find_close(toks, i + 8)
        out.extend([T('prefix_contains', t.gap), T('(', ''), T('&', ''), T(t.text, ''), T(',', ''), T(toks[i + 4].text)] + [T(',', '')] +
                   extract.rewrite(toks[i + 9:c], set(), _HITS, many_rules) + [T(')', '')])
        hit('R30b_slice_prefix_contains')
        return c + 1
    if t.kind == 'id' and seq(i + 1, '.', 'map', '(', '|', 'ptr', '|', 'ptr', '.', 'map', '(', '|', 'mut', 'ptr', '|', 'ptr', '.', 'as_mut', '(', ')', ')', ')'):
        out.extend([T('refs_of', t.gap), T('(', ''), T(t.text, ''), T(')', '')])
        hit('R30c_pointers_to_exclusive_refs')
        return i + 22
    if t.text == 'panic' and seq(i + 1, '!', '('):
        c = extract._find_close(toks, i + 2)
        out.extend([T('do_panic', t.gap), T('(', ''), T(')', '')])
        hit('R30d_panic_to_diverging_call')
        return c + 1
    return None


def dropglue_rules(toks, i, out, hit):
    """unit `dropglue`:
       R14  `Self::TABLE_LAYOUT` -> `Self::table_layout()`
       R18d a scope guard that is NOT forgotten runs its closure when the enclosing block ends:
            `let mut G = guard(X, |P| BODY);  REST` -> `REST  BODY;` with G and P renamed X (P and G carry the same name here)
       R31  `X.as_ptr().copy_from_nonoverlapping(&Y, 1)` -> `X.write_back(&Y)`; `::<T, _>` turbofish -> `::<T, A>`"""
    t = toks[i]
    n = len(toks)
    T = extract.T

    def seq(k, *texts):
        return k + len(texts) <= n and all(toks[k + a].text == x for a, x in enumerate(texts))
    if t.kind == 'id' and t.text == 'fn':
        _FLAGS['defer'] = None
        _FLAGS['gname'] = None
    if t.text == 'Self' and seq(i + 1, ':', ':', 'TABLE_LAYOUT'):
        out.extend([T('Self', t.gap), T(':', ''), T(':', ''), T('table_layout', ''), T('(', ''), T(')', '')])
        hit('R14_assoc_const_TABLE_LAYOUT_to_opaque_fn')
        return i + 4
    # R14b / R39: `RawTableInner::NEW` -> `RawTableInner::new_singleton()`; `NonNull::from(&mut X)` -> `OrigTable::of(&mut X)`;
    #             `RawDrain<'_, T, A>` (a type) -> `RawDrain<T, A>`
    if t.text == 'RawTableInner' and seq(i + 1, ':', ':', 'NEW'):
        out.extend([T('RawTableInner', t.gap), T(':', ''), T(':', ''), T('new_singleton', ''), T('(', ''), T(')', '')])
        hit('R14b_NEW_const_to_fn')
        return i + 4
    if t.text == 'NonNull' and seq(i + 1, ':', ':', 'from', '('):
        out.extend([T('OrigTable', t.gap), T(':', ''), T(':', ''), T('of', '')])
        hit('R39_pointer_to_original_table')
        return i + 4
    if t.text == 'RawDrain' and seq(i + 1, '<', "'_", ','):
        out.extend([T('RawDrain', t.gap), T('<', '')])
        hit('R39_elided_lifetime_parameter_dropped')
        return i + 4
    if t.text == ':' and seq(i + 1, ':', '<', 'T', ',', '_', '>'):
        out.extend([T(':', ''), T(':', ''), T('<', ''), T('T', ''), T(',', ''), T('A'), T('>', '')])
        hit('R31_inferred_turbofish_spelled_out')
        return i + 7
    if t.text == 'let' and seq(i + 1, 'mut') and toks[i + 2].kind == 'id' and seq(i + 3, '=', 'guard', '(') and toks[i + 6].kind == 'id' and seq(i + 7, ',', '|') \
            and toks[i + 9].kind == 'id' and seq(i + 10, '|'):
        G, X, P = toks[i + 2].text, toks[i + 6].text, toks[i + 9].text
        c = extract._find_close(toks, i + 5)
        if toks[c + 1].text != ';' or P != G:
            raise ExtractError('R18d: unexpected shape of the scope guard')
        body = toks[i + 11:c]
        _FLAGS['defer'] = [T(X if y.text == P else y.text, y.gap, y.kind) for y in body]
        _FLAGS['gname'] = (G, X)
        _FLAGS['defer_depth'] = 0
        hit('R18d_scope_guard_closure_deferred_to_block_end')
        return c + 2
    if _FLAGS.get('gname') and t.kind == 'id' and t.text == _FLAGS['gname'][0] and not (out and out[-1].text == '.'):
        out.append(T(_FLAGS['gname'][1], t.gap))
        return i + 1
    if _FLAGS.get('defer') is not None:
        if t.text == '{':
            _FLAGS['defer_depth'] += 1
        elif t.text == '}':
            if _FLAGS['defer_depth'] == 0:
                # the block that declared the guard ends: run the closure body
                d = _FLAGS['defer']
                _FLAGS['defer'] = None
                _FLAGS['gname'] = None
                out.extend([T(x.text, x.gap if k else '\n', x.kind) for k, x in enumerate(d)] + [T(';', '')])
                out.append(t)
                return i + 1
            _FLAGS['defer_depth'] -= 1
    # R32: inside RawDrain the raw iterator ranges over the elements of the drain's own table: `self.iter.drop_elements()`
    #      -> `self.iter_drop_elements()` (a method of the drain that marks ITS table's elements dropped)
    if t.text == 'self' and seq(i + 1, '.', 'iter', '.', 'drop_elements', '(', ')') and _FLAGS.get('in_drain'):
        out.extend([T('self', t.gap), T('.', ''), T('iter_drop_elements', ''), T('(', ''), T(')', '')])
        hit('R32_drain_iterator_drop_tied_to_its_table')
        return i + 7
    # R42: `alloc.deallocate(P, L)` (RawIntoIter::drop) -> `dealloc_of(&mut self.iter.mem, alloc, P, L)`
    if t.text == 'alloc' and seq(i + 1, '.', 'deallocate', '('):
        out.extend([T('dealloc_of', t.gap), T('(', ''), T('&', ''), T('mut', ''), T('self'), T('.', ''), T('iter', ''), T('.', ''), T('mem', ''), T(',', ''), T('alloc')])
        out.append(T(',', ''))
        hit('R42_deallocate_recorded_on_iterator_memory')
        return i + 4
    if t.text == '.' and seq(i + 1, 'as_ptr', '(', ')', '.', 'copy_from_nonoverlapping', '('):
        c = extract._find_close(toks, i + 6)
        args = extract._split_args(toks[i + 7:c])
        if len(args) != 2 or [x.text for x in args[1]] != ['1']:
            raise ExtractError('R31: unexpected shape of copy_from_nonoverlapping')
        out.extend([T('.', ''), T('write_back', ''), T('(', '')] + extract.rewrite(args[0], set(), _HITS, dropglue_rules) + [T(')', '')])
        hit('R31_table_moved_back_into_the_map')
        return c + 1
    return None


def clone_rules(toks, i, out, hit):
    """unit `clone`:
       R5e   `S.table.ctrl(0).copy_to_nonoverlapping(D.table.ctrl(0), N)` -> `D.table.ctrl_copy_from(&S.table, N)`
       R18e  the progress guard `let mut guard = guard((0, &mut *self), CLOSURE);` and `mem::forget(guard);` are dropped,
             `guard.1` is `self`, the progress marker `guard.0 = E;` (read only by the closure when unwinding) is dropped
       R19c  `TO.write(FROM.as_ref().clone())` -> `self.elem_clone_from(source, &FROM, &TO)`"""
    t = toks[i]
    n = len(toks)
    T = extract.T

    def seq(k, *texts):
        return k + len(texts) <= n and all(toks[k + a].text == x for a, x in enumerate(texts))
    if t.kind == 'id' and seq(i + 1, '.', 'table', '.', 'ctrl', '(', '0', ')', '.', 'copy_to_nonoverlapping', '(') and toks[i + 11].kind == 'id' \
            and seq(i + 12, '.', 'table', '.', 'ctrl', '(', '0', ')', ','):
        c = extract._find_close(toks, i + 10)
        S, D = t.text, toks[i + 11].text
        N = extract.rewrite(toks[i + 20:c], set(), _HITS, clone_rules)
        out.extend([T(D, t.gap), T('.', ''), T('table', ''), T('.', ''), T('ctrl_copy_from', ''), T('(', ''), T('&', ''), T(S, ''), T('.', ''), T('table', ''), T(',', '')] + N + [T(')', '')])
        hit('R5e_ctrl_bytes_copied_from_another_table')
        return c + 1
    if t.text == 'let' and seq(i + 1, 'mut', 'guard', '=', 'guard', '(', '(', '0', ',', '&', 'mut', '*', 'self', ')', ','):
        c = extract._find_close(toks, i + 5)
        if toks[c + 1].text != ';':
            raise ExtractError('R18e: unexpected shape of the progress guard')
        hit('R18e_progress_guard_elided')
        return c + 2
    if t.text == 'mem' and seq(i + 1, ':', ':', 'forget', '(', 'guard', ')', ';'):
        hit('R18e_progress_guard_elided')
        return i + 8
    if t.text == 'guard' and seq(i + 1, '.', '1'):
        out.append(T('self', t.gap))
        hit('R18e_guard_field_to_self')
        return i + 3
    if t.text == 'guard' and seq(i + 1, '.', '0', '='):
        k = i + 4
        while toks[k].text != ';':
            k += 1
        hit('R18e_progress_marker_dropped')
        return k + 1
    if t.kind == 'id' and seq(i + 1, '.', 'write', '(') and toks[i + 4].kind == 'id' and seq(i + 5, '.', 'as_ref', '(', ')', '.', 'clone', '(', ')', ')'):
        out.extend([T('self', t.gap), T('.', ''), T('elem_clone_from', ''), T('(', ''), T('source', ''), T(',', ''), T('&'), T(toks[i + 4].text, ''), T(',', ''), T('&'), T(t.text, ''), T(')', '')])
        hit('R19c_element_clone_written_to_bucket')
        return i + 14
    if t.kind == 'id' and t.text == 'for':
        _FLAGS['top_rules'] = clone_rules
        try:
            return ctrl_rules(toks, i, out, hit)
        finally:
            _FLAGS['top_rules'] = None
    return ctrl_rules(toks, i, out, hit)



def pardrain_rules(toks, i, out, hit):
    """unit `pardrain` (on top of iter_rules):
       R7e  `for X in &mut E {` -> `loop { match E.next() { Some(X) => {..} None => { break; } } }`
       R33  `E.map(|x| F)` on an Option -> `match E { Some(x) => Some(F), None => None }`
       R34  `folder.consume(unsafe { item.read() })` -> `folder.consume_bucket(&item)`
       R35  a by-value `mut self` whose type has a Drop impl: taken as `self_: &mut Self`; every `return E;` that is not
            preceded by `mem::forget(self)` first runs `self_.drop();` (what Rust does implicitly); `mem::forget(self)` ->
            `forget_producer_ref(self_)`
       R36  `ParDrainProducer { iter: X }` -> `ParDrainProducer::from_iter(X)`;  `mem::needs_drop::<T>()` -> `needs_drop::<T>()`"""
    t = toks[i]
    n = len(toks)
    T = extract.T

    def seq(k, *texts):
        return k + len(texts) <= n and all(toks[k + a].text == x for a, x in enumerate(texts))
    if t.kind == 'id' and t.text == 'fn' and i + 1 < n and toks[i + 1].kind == 'id':
        _FLAGS['byref_self'] = False
    if _FLAGS.get('sig') and t.text == 'mut' and seq(i + 1, 'self') and out and out[-1].text == '(' and _FLAGS.get('drop_aware'):
        out.extend([T('self_', ''), T(':', ''), T('&'), T('mut', ''), T('Self')])
        _FLAGS['byref_self'] = True
        hit('R35_by_value_self_with_drop_taken_by_mut_ref')
        return i + 2
    if _FLAGS.get('sig') and t.text == 'mut' and seq(i + 1, 'folder', ':', 'F'):
        # the consumer is an ordinary by-value `mut` parameter here (R16), not a closure (R17)
        _FLAGS['rebind'].append('folder')
        out.extend([T('folder', t.gap), T(':', ''), T('F')])
        hit('R16_mut_param_rebound')
        return i + 4
    if _FLAGS.get('byref_self') and not _FLAGS.get('sig'):
        if t.kind == 'id' and t.text == 'self':
            out.append(T('self_', t.gap))
            return i + 1
        if t.kind == 'id' and t.text == 'return':
            out.extend([T('self_', t.gap), T('.', ''), T('drop', ''), T('(', ''), T(')', ''), T(';', ''), T('return')])
            hit('R35_implicit_drop_before_return_written_out')
            return i + 1
        if t.text == 'mem' and seq(i + 1, ':', ':', 'forget', '(', 'self', ')'):
            out.extend([T('forget_producer_ref', t.gap), T('(', ''), T('self_', ''), T(')', '')])
            hit('R35_forget_marks_the_producer')
            return i + 7
    if t.text == 'mem' and seq(i + 1, ':', ':', 'forget', '(', 'self', ')'):
        out.extend([T('forget_producer', t.gap), T('(', ''), T('self', ''), T(')', '')])
        hit('R35_forget_marks_the_producer')
        return i + 7
    if t.text == 'mem' and seq(i + 1, ':', ':', 'needs_drop', ':', ':', '<', 'T', '>', '(', ')'):
        out.extend([T('needs_drop', t.gap), T(':', ''), T(':', ''), T('<', ''), T('T', ''), T('>', ''), T('(', ''), T(')', '')])
        hit('R21_NEEDS_DROP_to_opaque_fn')
        return i + 11
    if t.text == 'ParDrainProducer' and seq(i + 1, '{', 'iter', ':') and toks[i + 4].kind == 'id' and seq(i + 5, '}'):
        out.extend([T('ParDrainProducer', t.gap), T(':', ''), T(':', ''), T('from_iter', ''), T('(', ''), T(toks[i + 4].text, ''), T(')', '')])
        hit('R36_struct_literal_to_constructor')
        return i + 6
    if t.text == '.' and seq(i + 1, 'map', '(', '|') and toks[i + 4].kind == 'id' and seq(i + 5, '|'):
        c = extract._find_close(toks, i + 2)
        F = extract.rewrite(toks[i + 6:c], set(), _HITS, pardrain_rules)
        x = toks[i + 4].text
        k = len(out) - 1
        while k >= 0 and out[k].text not in ('=', ';', '{', '}', '(', ','):
            k -= 1
        recv = out[k + 1:]
        del out[k + 1:]
        out.extend([T('match')] + recv + [T('{'), T('Some'), T('(', ''), T(x, ''), T(')', ''), T('='), T('>', ''), T('Some'), T('(', '')] + F + [T(')', ''), T(',', ''),
                    T('None'), T('='), T('>', ''), T('None'), T(',', ''), T('}')])
        hit('R33_option_map_to_match')
        return c + 1
    if t.text == 'folder' and seq(i + 1, '.', 'consume', '(', 'unsafe', '{', 'item', '.', 'read', '(', ')', '}', ')'):
        out.extend([T('folder', t.gap), T('.', ''), T('consume_bucket', ''), T('(', ''), T('&', ''), T('item', ''), T(')', '')])
        hit('R34_consume_of_moved_out_element')
        return i + 13
    if t.kind == 'id' and t.text == 'for' and out and out[-1].text in (';', '{', '}') and toks[i + 1].kind == 'id' and seq(i + 2, 'in', '&', 'mut'):
        k = i + 5
        while toks[k].text != '{':
            k += 1
        E = extract.rewrite(toks[i + 5:k], set(), _HITS, pardrain_rules)
        close = extract._find_close(toks, k)
        body = extract.rewrite(toks[k + 1:close], set(), _HITS, pardrain_rules)
        out.extend([T('loop', t.gap), T('{'), T('match')] + E + [T('.', ''), T('next', ''), T('(', ''), T(')', ''), T('{'),
                    T('Some'), T('(', ''), T(toks[i + 1].text, ''), T(')', ''), T('='), T('>', ''), T('{')])
        out.extend(body)
        out.extend([T('}', '\n'), T('None'), T('='), T('>', ''), T('{'), T('break'), T(';', ''), T('}'), T('}', '\n'), T('}', '\n')])
        hit('R7e_for_over_mut_ref_iterator_to_loop')
        return close + 1
    if t.text == 'item' and seq(i + 1, '.', 'drop', '(', ')'):
        sn = 'self_' if _FLAGS.get('byref_self') else 'self'
        out.extend([T(sn, t.gap), T('.', ''), T('drop_bucket', ''), T('(', ''), T('&', ''), T('item', ''), T(')', '')])
        hit('R21_bucket_drop_recorded')
        return i + 5
    return iter_rules(toks, i, out, hit)


def retain_rules(toks, i, out, hit):
    """unit `retain` (on top of clone_rules / ctrl_rules):
       R41  the predicate applied to the element of the bucket just yielded:
            `let &mut (ref key, ref mut value) = item.as_mut(); if !f(key, value) {` -> `if !f.call_on(&item) {`
            `if !f(item.as_mut()) {` -> `if !f.call_on(&item) {`;  `mut f: F` / `mut f: impl FnMut(&mut T) -> bool` -> `f: &mut F`
            with `F: FnMut(&K, &mut V) -> bool` -> `F: RetainFn<(K, V)>` (resp. a type parameter `F: RetainFn<T>`)"""
    t = toks[i]
    n = len(toks)
    T = extract.T

    def seq(k, *texts):
        return k + len(texts) <= n and all(toks[k + a].text == x for a, x in enumerate(texts))
    if t.text == 'mut' and seq(i + 1, 'f', ':', 'F'):
        out.extend([T('f', t.gap), T(':', ''), T('&'), T('mut', ''), T('F')])
        hit('R41_predicate_by_mut_ref')
        return i + 4
    if t.text == 'mut' and seq(i + 1, 'f', ':', 'impl', 'FnMut', '(', '&', 'mut', 'T', ')', '-', '>', 'bool'):
        out.extend([T('f', t.gap), T(':', ''), T('&'), T('mut', ''), T('impl'), T('RetainFn'), T('<', ''), T('T', ''), T('>', '')])
        hit('R41_predicate_by_mut_ref')
        return i + 13
    if t.text == 'f' and seq(i + 1, '(', 'item', '.', 'as_mut', '(', ')', ')') and not (out and out[-1].text in ('.', 'fn')):
        out.extend([T('f', t.gap), T('.', ''), T('call_on', ''), T('(', ''), T('&', ''), T('item', ''), T(')', '')])
        hit('R41_predicate_call_on_bucket')
        return i + 8
    if t.text == 'FnMut' and seq(i + 1, '(', '&', 'K', ',', '&', 'mut', 'V', ')', '-', '>', 'bool'):
        out.extend([T('RetainFn', t.gap), T('<', ''), T('(', ''), T('K', ''), T(',', ''), T('V'), T(')', ''), T('>', '')])
        hit('R41_predicate_bound_to_RetainFn')
        return i + 12
    if t.text == 'let' and seq(i + 1, '&', 'mut', '(', 'ref', 'key', ',', 'ref', 'mut', 'value', ')', '=', 'item', '.', 'as_mut', '(', ')', ';'):
        hit('R41_element_destructuring_dropped')
        return i + 18
    if t.text == 'f' and seq(i + 1, '(', 'key', ',', 'value', ')') and not (out and out[-1].text in ('.', 'fn')):
        out.extend([T('f', t.gap), T('.', ''), T('call_on', ''), T('(', ''), T('&', ''), T('item', ''), T(')', '')])
        hit('R41_predicate_call_on_bucket')
        return i + 6
    # R7e (as in unit pardrain): `for X in &mut EXPR {` -> `loop { match EXPR.next() { Some(X) => {..} None => break, } }`
    if t.kind == 'id' and t.text == 'for' and out and out[-1].text in (';', '{', '}') and toks[i + 1].kind == 'id' and seq(i + 2, 'in', '&', 'mut'):
        k = i + 5
        while toks[k].text != '{':
            k += 1
        E = extract.rewrite(toks[i + 5:k], set(), _HITS, retain_rules)
        close = extract._find_close(toks, k)
        body = extract.rewrite(toks[k + 1:close], set(), _HITS, retain_rules)
        out.extend([T('loop', t.gap), T('{'), T('match')] + E + [T('.', ''), T('next', ''), T('(', ''), T(')', ''), T('{'),
                    T('Some'), T('(', ''), T(toks[i + 1].text, ''), T(')', ''), T('='), T('>', ''), T('{')])
        out.extend(body)
        out.extend([T('}', '\n'), T('None'), T('='), T('>', ''), T('{'), T('break'), T(';', ''), T('}'), T('}', '\n'), T('}', '\n')])
        hit('R7e_for_over_mut_ref_iterator_to_loop')
        return close + 1
    if t.text == 'FnMut' and seq(i + 1, '(', '&', 'mut', 'T', ')', '-', '>', 'bool'):
        out.extend([T('RetainFn', t.gap), T('<', ''), T('T', ''), T('>', '')])
        hit('R41_predicate_bound_to_RetainFn')
        return i + 9
    if t.kind == 'id' and t.text == 'for':
        _FLAGS['top_rules'] = retain_rules
        try:
            return ctrl_rules(toks, i, out, hit)
        finally:
            _FLAGS['top_rules'] = None
    return ctrl_rules(toks, i, out, hit)


def generate(unit_name, width, outdir):
    u = UNITS[unit_name]
    specs = {}
    for sf in (u['specs'] if isinstance(u['specs'], list) else [u['specs']]):
        specs.update(extract.parse_vspec(os.path.join(VERIF, sf)))
    hits = _HITS
    hits.clear()
    rules = set(u.get('rules', []))
    extra = u.get('extra', pow2_assert_rule)
    if isinstance(extra, str):
        extra = globals()[extra]
    free, impls, meta = [], {}, []
    for it in u['items']:
        spec = specs.get(it['key'])
        _FLAGS['value_type'] = it.get('value_type')
        _FLAGS['in_drain'] = it.get('in_drain')
        _FLAGS['drop_aware'] = it.get('drop_aware')
        if spec is None:
            raise ExtractError('no contract for %s in %s' % (it['key'], u['specs']))
        if it.get('closure'):
            item = extract.extract_closure(os.path.join(REPO, it['file']), it['ctx'], it['fn'], it['closure'], it['new_sig'],
                                           spec, rules, hits, nth=it['nth'], extra=extra)
        else:
            item = extract.extract_fn(os.path.join(REPO, it['file']), it['ctx'], it['fn'], spec, rules, hits,
                                      nth=it['nth'], extra=extra, rename=it['rename'])
        attr = spec.get('attr', '')
        gen = item['generated']
        hdr = '// extracted from %s:%d-%d sha256=%s\n' % (it['file'], item['line0'], item['line1'], item['sha'][:16])
        if it['impl']:
            impls.setdefault(it['impl'], []).append(hdr + gen)
        else:
            free.append(hdr + gen)
        meta.append(dict(key=it['key'], file=it['file'], lines=[item['line0'], item['line1']],
                         sha256=item['sha'], tokens=item['ntokens']))
    prelude = open(os.path.join(VERIF, u['prelude'])).read().replace('@WIDTH@', str(width))
    pe = u.get('prelude_extra') or []
    for pf in ([pe] if isinstance(pe, str) else pe):
        prelude += '\n' + open(os.path.join(VERIF, pf)).read().replace('@WIDTH@', str(width))
    parts = ['// GENERATED by /verif/lib/vunits.py from /repo working tree -- do not edit\n',
             'use vstd::prelude::*;\n#[allow(unused_imports)]\nuse core::mem;\n#[allow(unused_imports)]\nuse vstd::arithmetic::power2::*;\n#[allow(unused_imports)]\nuse vstd::arithmetic::div_mod::*;\n#[allow(unused_imports)]\nuse vstd::arithmetic::mul::*;\n#[allow(unused_imports)]\nuse vstd::bits::*;\n#[allow(unused_imports)]\nuse vstd::set_lib::*;\nverus! {\n', prelude, '\n']
    parts += [f + '\n\n' for f in free]
    for name, fns in impls.items():
        gen = name[name.index('<'):] if '<' in name else ''
        if '|' in name:      # `Type<..>|<generic parameter list with bounds>`
            name, gen = name.split('|')
        parts.append('impl%s %s {\n%s\n}\n\n' % (gen, name, '\n\n'.join(fns)))
    for lf in u.get('lemmas', []):
        parts.append('// ---- lemma file %s ----\n' % lf)
        parts.append(open(os.path.join(VERIF, lf)).read().replace('@WIDTH@', str(width)) + '\n')
    parts.append('// vacuity canary: MUST be reported as failed\nproof fn canary__() ensures false {}\n')
    parts.append('} // verus!\nfn main() {}\n')
    os.makedirs(outdir, exist_ok=True)
    path = os.path.join(outdir, '%s_w%d.rs' % (unit_name, width))
    open(path, 'w').write(''.join(parts))
    return path, meta, dict(hits)


ASSUME_PAT = re.compile(r'\b(assume\s*\(|admit\s*\(|external_body|assume_specification|external_fn_specification|#\[verifier::external|axiom)')


def scan_assumptions(path):
    """every trusted item of a generated unit: assume / admit / axioms / assume_specification, and for each
    `external_body` attribute the signature of the function it is attached to (a shim whose contract is assumed)"""
    out = []
    lines = open(path).read().split('\n')
    for ln, line in enumerate(lines, 1):
        if ASSUME_PAT.search(line) and not line.strip().startswith('//'):
            txt = line.strip()[:160]
            if 'external_body' in line:
                for nxt in lines[ln:ln + 4]:
                    m = re.search(r'\bfn\s+\w+[^{]*', nxt)
                    if m:
                        txt = 'external_body (contract assumed): ' + m.group(0).strip()[:140]
                        break
            out.append('%s:%d: %s' % (os.path.basename(path), ln, txt))
    return out


def run_verus(path, rlimit=None, timeout=600):
    cmd = ['verus', path, '--output-json', '--time', '--multiple-errors', '20']
    if rlimit:
        cmd += ['--rlimit', str(rlimit)]
    t0 = time.time()
    try:
        p = subprocess.run(cmd, capture_output=True, text=True, timeout=timeout, cwd=os.path.dirname(path))
    except subprocess.TimeoutExpired:
        return dict(status='timeout', wall=time.time() - t0, funcs={}, stderr='timeout')
    wall = time.time() - t0
    out = p.stdout
    try:
        js = json.loads(out[out.index('{'):])
    except Exception:
        return dict(status='error', wall=wall, funcs={}, stderr=(p.stderr or '')[-4000:] + out[-2000:])
    vr = js.get('verification-results', {})
    funcs = {}
    try:
        for m in js['times-ms']['smt']['smt-run-module-times']:
            for f in m.get('function-breakdown', []):
                name = f['function'].split('::', 1)[-1]
                prev = funcs.get(name)
                ok = bool(f['success']) and (prev['success'] if prev else True)
                funcs[name] = dict(success=ok, mode=f.get('mode:'), time_us=f.get('time-micros', 0) + (prev['time_us'] if prev else 0),
                                   rlimit=f.get('rlimit', 0))
    except Exception:
        pass
    status = 'ok'
    if vr.get('encountered-vir-error') or ('verified' not in vr):
        status = 'error'
    return dict(status=status, wall=wall, funcs=funcs, verified=vr.get('verified'), errors=vr.get('errors'),
                stderr=p.stderr, smt_ms=js.get('times-ms', {}).get('smt', {}).get('total'),
                total_ms=js.get('times-ms', {}).get('total'))
