"""Obligation registry: which named obligation serves which property, at which tier,
with which back end and label.

Labels (never added together):
  P  proved      Verus/Z3 on mechanically extracted real function text; all inputs, no bound
  C  complete    Kani/CBMC on the real crate, loop-free (or structurally bounded by the machine
                 word / group width) over the full input domain
  B  bounded     Kani/CBMC Hoare obligation {Inv && pre} f {Inv && post} from EVERY abstract state
                 of a table with N buckets, N in a stated finite set (bounded in table size only)
"""

FEATURES = 'serde,rayon,rustc-internal-api'
CFGS = {
    'sse2': '--cfg hashbrown_verif',                # 16-byte SSE2 group scanner
    'generic': '--cfg hashbrown_verif --cfg miri',  # portable 8-byte scanner (upstream's own cfg switch)
}

KANI = {}


def K(name, label, props, fns, desc, cfgs=('sse2', 'generic'), tier='quick', timeout=900, mem=3,
      bound=None, module='k', expect_unsat_covers=()):
    KANI[name] = dict(name=name, path='raw::verif::%s::%s' % (module, name), label=label, props=list(props),
                      fns=list(fns), desc=desc, cfgs=list(cfgs), tier=tier, timeout=timeout, mem=mem,
                      bound=bound, expect_unsat_covers=list(expect_unsat_covers))


# ---- pure arithmetic / bit level (complete over the full machine domain) ----
K('h_capacity_to_buckets', 'C', ['C17', 'C08', 'C12'], ['capacity_to_buckets'],
  'capacity_to_buckets: overflow only when cap*8 wraps; power of two >= 4; cap <= usable < buckets; minimal; small-element minimum')
K('kc_capacity_to_buckets', 'C', ['C17'], ['capacity_to_buckets'],
  'Kani function contract (requires/ensures) of capacity_to_buckets, proof_for_contract', module='pure_k')
K('h_bucket_mask_to_capacity', 'C', ['C17', 'C08', 'C13'], ['bucket_mask_to_capacity'],
  'bucket_mask_to_capacity: 7/8 load, < buckets, >= 1, monotone')
K('kc_bucket_mask_to_capacity', 'C', ['C17'], ['bucket_mask_to_capacity'],
  'Kani function contract of bucket_mask_to_capacity', module='pure_k')
K('h_calculate_layout_for', 'C', ['C17', 'C02', 'C12', 'C03'], ['TableLayout::calculate_layout_for'],
  'calculate_layout_for: None exactly on overflow past isize::MAX; ctrl offset is the exact aligned round-up; size covers elements+buckets+mirror group; Layout valid')
K('kc_calculate_layout_for', 'C', ['C17'], ['TableLayout::calculate_layout_for'],
  'Kani function contract of calculate_layout_for', module='pure_k')
K('kc_caller_capacity_then_layout', 'C', ['C17'], ['capacity_to_buckets', 'TableLayout::calculate_layout_for'],
  'caller checked against the two contracts only (stub_verified): bucket count then layout give a valid Layout with room for all control bytes',
  module='pure_k')
K('h_table_layout_new', 'C', ['C17', 'C02'], ['TableLayout::new'],
  'TableLayout::new::<T>: size_of T, ctrl_align = max(align_of T, WIDTH) for 8 element layouts incl. ZST and align 64')
K('h_move_next', 'C', ['C17', 'C13'], ['ProbeSeq::move_next'],
  'ProbeSeq::move_next: stride += WIDTH, pos = (pos + stride) & mask, no overflow for any table that fits memory')
K('h_h1', 'C', ['C17'], ['h1'], 'h1: low bits of the hash')
K('h_probe_cycle', 'B', ['C17', 'C13'], ['ProbeSeq::move_next'],
  'probe sequence visits every group once before repeating: tables of 1..64 groups, every start position',
  bound='groups <= 64 (unbounded statement: Verus lemma L1)', timeout=1800)
K('h_std_specs', 'C', ['C17'], ['usize::next_power_of_two', 'usize::is_power_of_two'],
  'std specs assumed by the Verus preludes, discharged against real std over the full domain')
K('h_tag', 'C', ['C18', 'C01'], ['Tag::full', 'Tag::is_full', 'Tag::is_special', 'Tag::special_is_empty'],
  'Tag: top 7 bits; full/special/empty classification for all 256 bytes and all hashes')
K('h_group', 'C', ['C18', 'C01', 'C02'], ['Group::load', 'Group::load_aligned', 'Group::store_aligned', 'Group::match_tag',
                                         'Group::match_empty', 'Group::match_empty_or_deleted', 'Group::match_full',
                                         'Group::convert_special_to_empty_and_full_to_deleted'],
  'every scanner primitive equals its byte-by-byte definition on every group of bytes (all 2^128 / 2^64 groups, all tags, aligned and unaligned loads); portable match_tag may add only a low-bit neighbour above a true match',
  timeout=1800)
K('h_bitmask', 'C', ['C18', 'C09'], ['BitMask::any_bit_set', 'BitMask::lowest_set_bit', 'BitMask::trailing_zeros',
                                    'BitMask::leading_zeros', 'BitMask::invert', 'BitMask::into_iter', 'BitMaskIter::next'],
  'BitMask queries and iteration in lane units for every producible mask', timeout=1800)
K('h_static_empty', 'C', ['C18', 'C02', 'C03'], ['Group::static_empty'], 'static empty group: aligned, all EMPTY')
K('h_cautious', 'C', ['C20'], ['serde::size_hint::cautious'], 'size_hint::cautious = min(hint or 0, 4096) for every hint')

# ---- raw table core, bounded-inductive (every abstract state with N buckets) ----
RAW_SIZES = {
    # (cfg, N, tier)
    'sse2': [(4, 'quick'), (8, 'quick'), (16, 'thorough')],
    'generic': [(8, 'quick'), (16, 'quick')],
}


def KB(base, n, props, fns, desc, cfgs, tier, timeout=1500, mem=4, **kw):
    K('%s_n%d' % (base, n), 'B', props, fns, desc + ' [every state with %d buckets]' % n, cfgs=cfgs, tier=tier,
      timeout=timeout, mem=mem, bound='buckets == %d' % n, **kw)


VERUS = {
    # unit -> dict(props, widths, tier, desc)
    'arith': dict(props=['C17', 'C08', 'C12', 'C13'], tier='quick',
                  desc='capacity / layout / probe-step arithmetic and lemmas, all inputs, both group widths',
                  # Verus function -> the complete CBMC obligation proving the same contract (used for the
                  # brittleness exception and to search for a failing input)
                  paired={'capacity_to_buckets': 'h_capacity_to_buckets',
                          'bucket_mask_to_capacity': 'h_bucket_mask_to_capacity',
                          'TableLayout::calculate_layout_for': 'h_calculate_layout_for',
                          'ProbeSeq::move_next': 'h_move_next',
                          'h1': 'h_h1'}),
}

PROPERTIES = ['C%02d' % i for i in range(1, 21)]


def kani_for(prop, tier):
    out = []
    for o in KANI.values():
        if prop in o['props'] and (tier == 'thorough' or o['tier'] == 'quick'):
            out.append(o)
    return out


def verus_for(prop, tier):
    return [u for u, d in VERUS.items() if prop in d['props'] and (tier == 'thorough' or d['tier'] == 'quick')]
