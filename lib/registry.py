"""Obligation registry: which named obligation serves which property, at which tier,
with which back end and label.

Labels (never added together):
  P  proved      Verus/Z3 on mechanically extracted real function text; all inputs, no bound
  C  complete    Kani/CBMC on the real crate, loop-free (or structurally bounded by the machine
                 word / group width) over the full input domain
  B  bounded     Kani/CBMC Hoare obligation {Inv && pre} f {Inv && post} from EVERY abstract state
                 of a table with N buckets, N in a stated finite set (bounded in table size only)
  R  runtime     the same contract (same plain-Rust pre/post predicates, same real function) evaluated
                 natively on sampled abstract states (4..64 buckets + the unallocated singleton, both
                 group widths); stand-in for functions whose symbolic execution does not terminate in
                 CBMC (rehash_in_place, resize_inner and everything that reaches them) and the only
                 engine that really unwinds (C04).  Sampling, never counted as proved.
"""

FEATURES = 'serde,rayon,rustc-internal-api'
CFGS = {
    'sse2': '--cfg hashbrown_verif',                # 16-byte SSE2 group scanner
    'generic': '--cfg hashbrown_verif --cfg miri',  # portable 8-byte scanner (upstream's own cfg switch)
}

KANI = {}


def K(name, label, props, fns, desc, cfgs=('sse2', 'generic'), tier='quick', timeout=900, mem=3,
      bound=None, module='k', expect_unsat_covers=(), supplementary_for=()):
    KANI[name] = dict(name=name, path='raw::verif::%s::%s' % (module, name), label=label, props=list(props),
                      fns=list(fns), desc=desc, cfgs=list(cfgs), tier=tier, timeout=timeout, mem=mem,
                      bound=bound, expect_unsat_covers=list(expect_unsat_covers), supplementary_for=list(supplementary_for))


# ---- pure arithmetic / bit level (complete over the full machine domain) ----
K('h_capacity_to_buckets', 'C', ['C17', 'C08', 'C12'], ['capacity_to_buckets'],
  'capacity_to_buckets: overflow only when cap*8 wraps; power of two >= 4; cap <= usable < buckets; minimal; small-element minimum')
K('kc_capacity_to_buckets', 'C', ['C17'], ['capacity_to_buckets'],
  'Kani function contract (requires/ensures) of capacity_to_buckets, proof_for_contract', module='pure_k')
K('h_bucket_mask_to_capacity', 'C', ['C17', 'C08', 'C13'], ['bucket_mask_to_capacity'],
  'bucket_mask_to_capacity: 7/8 load, < buckets, >= 1, monotone')
K('kc_bucket_mask_to_capacity', 'C', ['C17'], ['bucket_mask_to_capacity'],
  'Kani function contract of bucket_mask_to_capacity', module='pure_k')
K('h_calculate_layout_for', 'C', ['C17', 'C02', 'C12', 'C03'], ['TableLayout::calculate_layout_for'],
  'calculate_layout_for: None exactly on overflow past isize::MAX; ctrl offset is the exact aligned round-up; size covers elements+buckets+mirror group; Layout valid')
K('kc_calculate_layout_for', 'C', ['C17'], ['TableLayout::calculate_layout_for'],
  'Kani function contract of calculate_layout_for', module='pure_k')
K('kc_caller_capacity_then_layout', 'C', ['C17'], ['capacity_to_buckets', 'TableLayout::calculate_layout_for'],
  'caller checked against the two contracts only (stub_verified): bucket count then layout give a valid Layout with room for all control bytes',
  module='pure_k')
K('h_table_layout_new', 'C', ['C17', 'C02'], ['TableLayout::new'],
  'TableLayout::new::<T>: size_of T, ctrl_align = max(align_of T, WIDTH) for 8 element layouts incl. ZST and align 64')
K('h_bucket_index', 'C', ['C02', 'C10', 'C09'], ['Bucket::from_base_index', 'Bucket::to_base_index', 'Bucket::next_n', 'Bucket::as_ptr'],
  'bucket handles: from_base_index / next_n / to_base_index / as_ptr agree on "index relative to base" for sized elements (every index of an 8-slot data part) and for zero-sized ones (every index below 2^62), 5 element layouts')
K('h_move_next', 'C', ['C17', 'C13'], ['ProbeSeq::move_next'],
  'ProbeSeq::move_next: stride += WIDTH, pos = (pos + stride) & mask, no overflow for any table that fits memory')
K('h_h1', 'C', ['C17'], ['h1'], 'h1: low bits of the hash')
K('h_probe_cycle', 'B', ['C17', 'C13'], ['ProbeSeq::move_next'],
  'probe sequence visits every group once before repeating: tables of 1..64 groups, every start position',
  bound='groups <= 64 (the unbounded statement is Verus lemma lemma_probe_distinct in unit arith)', timeout=1800,
  supplementary_for=['C17'])
K('h_std_specs', 'C', ['C17'], ['usize::next_power_of_two', 'usize::is_power_of_two'],
  'std specs assumed by the Verus preludes, discharged against real std over the full domain')
K('h_tag', 'C', ['C18', 'C01'], ['Tag::full', 'Tag::is_full', 'Tag::is_special', 'Tag::special_is_empty'],
  'Tag: top 7 bits; full/special/empty classification for all 256 bytes and all hashes')
K('h_group', 'C', ['C18', 'C01', 'C02'], ['Group::load', 'Group::load_aligned', 'Group::store_aligned', 'Group::match_tag',
                                         'Group::match_empty', 'Group::match_empty_or_deleted', 'Group::match_full',
                                         'Group::convert_special_to_empty_and_full_to_deleted'],
  'every scanner primitive equals its byte-by-byte definition on every group of bytes (all 2^128 / 2^64 groups, all tags, aligned and unaligned loads); portable match_tag may add only a low-bit neighbour above a true match',
  timeout=1800)
K('h_bitmask', 'C', ['C18', 'C09'], ['BitMask::any_bit_set', 'BitMask::lowest_set_bit', 'BitMask::trailing_zeros',
                                    'BitMask::leading_zeros', 'BitMask::invert', 'BitMask::into_iter', 'BitMaskIter::next'],
  'BitMask queries and iteration in lane units for every producible mask', timeout=1800)
K('h_static_empty', 'C', ['C18', 'C02', 'C03'], ['Group::static_empty'], 'static empty group: aligned, all EMPTY')
K('h_cautious', 'C', ['C20'], ['serde::size_hint::cautious'], 'size_hint::cautious = min(hint or 0, 4096) for every hint')

# ---- raw table core, bounded-inductive (every abstract state with N buckets) ----
RAW_SIZES = {
    # (cfg, N, tier)
    'sse2': [(4, 'quick'), (8, 'quick'), (16, 'thorough')],
    'generic': [(8, 'quick'), (16, 'quick')],
}


def KB(base, n, props, fns, desc, cfgs, tier, timeout=1500, mem=4, **kw):
    K('%s_n%d' % (base, n), 'B', props, fns, desc + ' [every state with %d buckets]' % n, cfgs=cfgs, tier=tier,
      timeout=timeout, mem=mem, bound='buckets == %d' % n, **kw)


# ---- raw table core: bounded-inductive CBMC obligations ----
def raw_b(base, props, fns, desc, sse2=(4, 8), generic=(8,), thorough_sse2=(16,), thorough_generic=(16,), timeout=1500):
    for n in sorted(set(sse2) | set(generic) | set(thorough_sse2) | set(thorough_generic)):
        cfgs = []
        if n in sse2 or n in thorough_sse2:
            cfgs.append('sse2')
        if n in generic or n in thorough_generic:
            cfgs.append('generic')
        tier = 'quick' if (n in sse2 or n in generic) else 'thorough'
        K('%s_n%d' % (base, n), 'B', props, fns, desc + ' [every abstract state with %d buckets]' % n, cfgs=cfgs, tier=tier,
          timeout=timeout, mem=4, bound='buckets == %d' % n)
        KANI['%s_n%d' % (base, n)]['mem'] = 4 if n <= 8 else 14
        KANI['%s_n%d' % (base, n)]['cfg_tier'] = {'sse2': 'quick' if n in sse2 else 'thorough', 'generic': 'quick' if n in generic else 'thorough'}


raw_b('h_find', ['C01', 'C06', 'C02'], ['RawTable::find', 'RawTableInner::find_inner'],
      'find: sound and complete w.r.t. the abstract state (every stored element equal to the probe is found, nothing else), table untouched')
K('h_find_unlawful_n8', 'B', ['C05', 'C02'], ['RawTableInner::find_inner'],
  'find_inner with arbitrary eq answers and unrelated hash: terminates, only full in-range buckets offered/returned [every wf state with 8 buckets]',
  tier='quick', timeout=1500, mem=4, bound='buckets == 8')
raw_b('h_find_insert_slot', ['C01', 'C06', 'C13', 'C02'], ['RawTableInner::find_insert_slot', 'RawTableInner::fix_insert_slot', 'RawTableInner::find_insert_slot_in_group'],
      'find_insert_slot: in range, EMPTY or DELETED, no group with an EMPTY byte probed before the slot group',
      generic=(8, 16), thorough_generic=())
raw_b('h_find_or_insert_slot', ['C01', 'C06', 'C14'], ['RawTableInner::find_or_find_insert_slot_inner'],
      'find_or_find_insert_slot_inner: Ok exactly for stored elements, Err slot satisfies the insert-slot contract')
raw_b('h_insert_in_slot', ['C01', 'C06', 'C13'], ['RawTable::insert_in_slot', 'RawTableInner::record_item_insert_at', 'RawTableInner::set_ctrl'],
      'insert_in_slot at any admissible slot: wf kept (accounting, mirror bytes), only that bucket changes, everything stays reachable')
raw_b('h_remove', ['C01', 'C06', 'C13', 'C10', 'C03'], ['RawTable::remove', 'RawTableInner::erase', 'RawTableInner::set_ctrl'],
      'remove/erase: returns the element and its slot, DELETED iff a whole window of non-EMPTY buckets contains the slot else EMPTY with growth_left+1, frame, reachability kept')
raw_b('h_iter', ['C09', 'C02'], ['RawTableInner::iter', 'RawIterRange::new', 'RawIterRange::next_impl', 'RawIter::next', 'RawIter::size_hint'],
      'RawIter: exactly the full buckets in ascending order, exact size_hint at every step, None after exhaustion',
      thorough_sse2=())   # 16 buckets under SSE2: no answer within 5400 s (measured); the portable build answers in ~1400 s; all sizes: Verus unit iter

raw_b('h_clear', ['C08', 'C01'], ['RawTable::clear', 'RawTableInner::clear_no_drop'],
      'clear: all buckets EMPTY, counters reset, same allocation (an already empty table is left as it was)')
raw_b('h_iter_fold', ['C09'], ['RawIter::fold', 'RawIterRange::fold_impl', 'RawIter::clone'],
      'next() for any prefix then fold(): every full bucket exactly once; a clone reports the same remaining length',
      thorough_sse2=())   # as h_iter
raw_b('h_drain', ['C10', 'C09', 'C02'], ['RawTable::drain', 'RawDrain::next', 'RawDrain::drop', 'RawTable::drain_iter_from'],
      'drain consumed to any cut then dropped or leaked: valid empty table, same allocation, no tombstones, full capacity (leaked: unallocated)',
      thorough_sse2=())   # 16 buckets under SSE2: no answer within 4500 s (measured); the portable build answers in ~1000 s
raw_b('h_clone', ['C11'], ['RawTable::clone', 'RawTable::clone_from_impl'],
      'clone: every bucket reproduced in a new allocation, source unchanged',
      thorough_sse2=())   # 16 buckets under SSE2: no answer within 4500 s (measured); the portable build answers; all sizes: Verus unit clone
raw_b('h_get_many2', ['C15'], ['RawTable::get_many_mut_pointers'],
      'two-key lookup: each request resolves like find; the two pointers coincide exactly when the keys are equal')
raw_b('h_iter_hash', ['C06'], ['RawIterHash::next', 'RawIterHashInner::next', 'RawIterHashInner::new'],
      'iter_hash(h): only full buckets, none twice, every stored element with hash h, terminates',
      sse2=(), generic=(), thorough_sse2=(4,), thorough_generic=())
raw_b('h_replace_bucket_with', ['C14', 'C04'], ['RawTable::replace_bucket_with'],
      'replace_bucket_with: Some keeps the slot (control byte, mirror, counters restored), None removes; frame; reachability')

# ---- engine R: native evaluation of contracts on sampled states ----
NATIVE = {}
R_SIZES = (4, 8, 16, 32, 64)


def R(base, props, fns, desc, sizes=R_SIZES, names=None, quick_iters=30000, thorough_iters=600000):
    for nm in (names or ['%s_n%d' % (base, n) for n in sizes]):
        big = nm.endswith('n64') or '_n64_' in nm
        NATIVE[nm] = dict(name=nm, label='R', props=list(props), fns=list(fns), desc=desc, cfgs=['sse2', 'generic'],
                          quick_iters=quick_iters // (3 if big else 1), thorough_iters=thorough_iters // (3 if big else 1))


R('r_find', ['C01', 'C06', 'C18'], ['RawTable::find'], 'find sound+complete (as h_find) on sampled Inv states up to 64 buckets')
R('r_find_unlawful', ['C05'], ['RawTableInner::find_inner'], 'find_inner under arbitrary eq answers')
R('r_find_insert_slot', ['C01', 'C06', 'C13'], ['RawTableInner::find_insert_slot'], 'insert-slot contract on sampled states (multi-group SSE2 included)')
R('r_find_or_insert_slot', ['C01', 'C06', 'C14'], ['RawTableInner::find_or_find_insert_slot_inner'], 'find_or_find_insert_slot contract on sampled states')
R('r_insert_in_slot', ['C01', 'C06', 'C13'], ['RawTable::insert_in_slot'], 'insert_in_slot contract on sampled states')
R('r_remove', ['C01', 'C06', 'C13', 'C10'], ['RawTable::remove', 'RawTableInner::erase'], 'remove/erase contract (exact DELETED/EMPTY rule) on sampled states')
R('r_insert', ['C01', 'C06', 'C08', 'C13'], ['RawTable::insert'], 'RawTable::insert: one more copy, nothing lost, reachable, no reallocation while room or a tombstone is usable',
  sizes=(4, 8, 16, 32))
R('r_resize', ['C01', 'C03', 'C08', 'C13', 'C05'], ['RawTable::resize', 'RawTableInner::resize_inner', 'RawTableInner::prepare_resize'],
  'resize_inner: same multiset, no tombstones, everything reachable in the new table', sizes=(4, 8, 16, 32))
R('r_rehash_in_place', ['C01', 'C13', 'C05', 'C03'], ['RawTableInner::rehash_in_place', 'RawTableInner::prepare_rehash_in_place', 'RawTableInner::is_in_same_group'],
  'rehash_in_place: same multiset, same allocation, no tombstones, everything reachable')
R('r_reserve', ['C13', 'C08', 'C01', 'C06'], ['RawTable::reserve', 'RawTableInner::reserve_rehash_inner'],
  'reserve decision contract: untouched while growth_left suffices; tombstones reclaimed in place exactly when len + additional <= capacity/2; otherwise growth to capacity_to_buckets(max(len+additional, capacity+1)) and no more')
R('r_insert_full_load', ['C14', 'C01', 'C06', 'C13'], ['RawTable::insert'],
  'insert when growth_left == 0 and the first slot found is EMPTY: after reserve(1) (in place or growing) the slot is searched again; new element and all others reachable',
  quick_iters=60000, thorough_iters=1500000)
R('r_clear', ['C08', 'C01'], ['RawTable::clear'], 'clear contract on sampled states')
R('r_iter_fold', ['C09'], ['RawIter::fold'], 'next-then-fold contract on sampled states')
R('r_drain', ['C10', 'C09', 'C02'], ['RawTable::drain', 'RawDrain::drop'], 'raw drain contract on sampled states')
R('r_clone', ['C11'], ['RawTable::clone'], 'raw clone contract on sampled states')
R('r_get_many2', ['C15'], ['RawTable::get_many_mut_pointers'], 'two-key lookup contract on sampled states')
R('r_iter_hash', ['C06'], ['RawIterHash::next'], 'iter_hash contract on sampled states (multi-group included)')
R('r_replace_bucket_with', ['C14', 'C04'], ['RawTable::replace_bucket_with'], 'replace_bucket_with contract on sampled states')
R('r_iter', ['C09'], ['RawIter::next', 'RawIter::size_hint'], 'RawIter contract on sampled states')
R('r_map_lookup', ['C01', 'C18'], ['HashMap::get', 'HashMap::get_mut', 'HashMap::contains_key', 'HashMap::get_key_value', 'HashMap::get_key_value_mut', 'HashMap::index'],
  'HashMap lookups equal the association-list reference, also through an equivalent borrowed key; map unchanged')
R('r_map_update', ['C01', 'C08', 'C18'], ['HashMap::insert', 'HashMap::try_insert', 'HashMap::remove', 'HashMap::remove_entry', 'HashMap::insert_unique_unchecked'],
  'HashMap insert/try_insert/remove/remove_entry: return values and contents equal the reference; present-key insert keeps the stored key; no reallocation within capacity')
R('r_map_entry', ['C14', 'C01'], ['HashMap::entry', 'HashMap::entry_ref', 'Entry::*', 'OccupiedEntry::*', 'VacantEntry::*', 'EntryRef::*'],
  'entry / entry_ref: Occupied iff present; every method chain equals the equivalent get/insert/remove sequence; unused vacant entry changes nothing; full-load states included')
R('r_map_bulk', ['C01', 'C08', 'C10'], ['HashMap::clear', 'HashMap::reserve', 'HashMap::try_reserve', 'HashMap::shrink_to', 'HashMap::shrink_to_fit', 'HashMap::retain', 'HashMap::extend'],
  'clear/reserve/try_reserve/shrink_to/shrink_to_fit/retain/extend: contents equal the reference, capacity contract clauses')
R('r_map_construct', ['C01', 'C08'], ['HashMap::from_iter', 'HashMap::with_capacity_and_hasher', 'HashMap::default'],
  'from_iter keeps the last value per key; with_capacity(n).capacity() >= n; default/with_capacity(0) allocate nothing', names=['r_map_construct_n8', 'r_map_construct_n32'])
R('r_set_algebra', ['C07'], ['HashSet::union', 'HashSet::intersection', 'HashSet::difference', 'HashSet::symmetric_difference', 'HashSet::is_subset', 'HashSet::is_superset',
                             'HashSet::is_disjoint', 'HashSet::eq', 'BitOr', 'BitAnd', 'BitXor', 'Sub', 'BitOrAssign', 'BitAndAssign', 'BitXorAssign', 'SubAssign'],
  'set algebra and predicates equal the mathematical result for (arbitrary Inv state, history-built set) pairs; size_hint bounds at every step')
R('r_set_elem', ['C07', 'C14'], ['HashSet::insert', 'HashSet::replace', 'HashSet::take', 'HashSet::get', 'HashSet::get_or_insert', 'HashSet::get_or_insert_with', 'HashSet::remove', 'HashSet::entry'],
  'set element operations: replace stores new / returns old, get_or_insert keeps old, get_or_insert_with refuses non-equivalent values')
R('r_table_ops', ['C06', 'C08'], ['HashTable::find', 'HashTable::find_mut', 'HashTable::find_entry', 'HashTable::entry', 'HashTable::insert_unique', 'HashTable::retain',
                                 'HashTable::clear', 'HashTable::reserve', 'HashTable::shrink_to', 'HashTable::iter_hash', 'HashTable::iter_hash_mut', 'table::OccupiedEntry::remove', 'table::VacantEntry::insert'],
  'HashTable as a multiset keyed by caller hashes incl. remove + re-insertion through the returned VacantEntry and iter_hash')
R('r_get_many_mut', ['C15'], ['HashMap::get_many_mut', 'HashMap::get_many_key_value_mut', 'RawTable::get_many_mut'],
  'get_many_mut / get_many_key_value_mut for N = 0..4: request order, own entry per present key, None for absent, panic instead of aliasing, writes land in the requested entries')
R('r_table_get_many_mut', ['C15', 'C05'], ['HashTable::get_many_mut'], 'HashTable::get_many_mut with lawful and sloppy closures: distinct entries or panic')
R('r_map_iter', ['C09'], ['HashMap::iter', 'HashMap::iter_mut', 'HashMap::keys', 'HashMap::values', 'HashMap::values_mut', 'HashMap::into_iter', 'HashMap::into_keys', 'HashMap::into_values', 'HashMap::drain'],
  'every HashMap iterator: each element once, exact size_hint/len at every step, fold == repeated next, clones continue independently, None after exhaustion, Default empty')
R('r_set_table_iter', ['C09'], ['HashSet::iter', 'HashSet::into_iter', 'HashSet::drain', 'HashTable::iter', 'HashTable::iter_mut', 'HashTable::into_iter', 'HashTable::drain'],
  'HashSet / HashTable iterators (same contract)')
R('r_drain_extract', ['C10', 'C02'], ['HashMap::drain', 'HashMap::extract_if', 'HashTable::extract_if', 'RawDrain::drop'],
  'drain consumed to any cut / leaked: empty valid map, same allocation; extract_if dropped at any point: yielded == visited && true, rest stays')
R('r_life', ['C03', 'C08'], ['RawTable::drop', 'RawIntoIter::drop', 'RawDrain::drop', 'RawTable::clear', 'RawTable::shrink_to', 'RawTable::clone_from', 'RawTableInner::drop_inner_table', 'RawTable::into_allocation'],
  'every exit path (remove, overwrite, clear, retain, extract_if, drain, into_iter/keys/values at any cut, shrink, clone_from, drop): each element dropped or moved out exactly once, each block freed once with its layout; allocation_size() == bytes held')
R('r_no_alloc', ['C03', 'C08'], ['RawTable::new_in', 'RawTableInner::NEW'], 'new/default/with_capacity(0) never call the allocator; capacity()-len() inserts perform no allocation')
R('r_try_reserve', ['C12'], ['RawTable::try_reserve', 'RawTableInner::reserve_rehash_inner', 'RawTableInner::fallible_with_capacity', 'Fallibility::*'],
  'try_reserve over boundary amounts x allocator refusing the j-th request: Ok with room, or CapacityOverflow, or AllocError with the refused layout; never a panic or invalid layout; on error nothing changed/leaked/dropped')
R('r_clone_eq', ['C11', 'C03'], ['RawTable::clone', 'RawTable::clone_from', 'RawTable::clone_from_impl', 'HashMap::eq'],
  'clone / clone_from into targets of every relative size: equal, independently owned, source untouched; == iff same contents whatever history/capacity/hasher',
  names=['r_clone_eq_n4_m8', 'r_clone_eq_n8_m4', 'r_clone_eq_n8_m8', 'r_clone_eq_n16_m32', 'r_clone_eq_n32_m8', 'r_clone_eq_n32_m32', 'r_clone_eq_n64_m16'])
R('r_panic', ['C04', 'C02'], ['ScopeGuard::drop', 'RawTableInner::rehash_in_place', 'RawTableInner::resize_inner', 'RawTable::clone_from', 'RawTable::clone_from_impl', 'RawTable::clear', 'RawTable::replace_bucket_with', 'RawExtractIf::next'],
  'the k-th Hash/Eq/Clone/Drop/predicate/entry-closure/iterator callback panics (real unwinding): valid table, len == yielded == found, no double drop, leaks only from destructor panics, hasher panic while growing leaves contents unchanged')
R('r_panic_nodrop', ['C04', 'C02'], ['RawTableInner::rehash_in_place'], 'hasher panic during reserve/insert/shrink for element types without drop glue: items == #FULL afterwards')
R('r_unlawful', ['C05'], ['HashMap::*', 'HashSet::*'], 'random / constant / inconsistent Hash and Eq answers over operation sequences: wf after every step, termination, exactly-once drops, len == yielded == drained, get_many_mut never aliases')
R('r_raw_rustc_entry', ['C14'], ['HashMap::raw_entry', 'HashMap::raw_entry_mut', 'RawEntryBuilderMut::*', 'RawOccupiedEntryMut::*', 'RawVacantEntryMut::*', 'HashMap::rustc_entry', 'RustcEntry::*', 'RawTable::insert_no_grow'],
  'raw_entry / raw_entry_mut builders (from_key, from_key_hashed_nocheck, from_hash) and rustc_entry (reserve at creation, insert_no_grow) equal the association-list reference, full-load states included')
R('r_layouts', ['C02', 'C08', 'C03'], ['Bucket::from_base_index', 'Bucket::as_ptr', 'Bucket::next_n', 'TableLayout::new', 'RawTableInner::new_uninitialized'],
  'operation sequences + dropped/leaked drains for element layouts (), u8, u16, [u64;3], [u8;200], align 64: aligned control bytes and element references, len == yielded, valid after leak')
R('r_split_tree', ['C19'], ['RawIterRange::split'], 'RawIterRange::split along any decision tree (depth <= 5): the leaves deliver exactly the full buckets, none twice')
R('r_rayon', ['C19'], ['RawParIter', 'RawParDrain', 'RawIntoParIter', 'ParDrainProducer::split', 'ParDrainProducer::fold_with', 'ParDrainProducer::drop', 'par_extend', 'par_eq', 'parallel set operations'],
  'real rayon pools of 1/2/3/8/64 threads: par_iter(_mut)/par_keys/par_values/into_par_iter/par_drain deliver each element once, par_drain leaves an empty usable map, short-circuited elements dropped exactly once (global ledger), par_extend/from_par_iter/par_eq/parallel set ops equal the sequential ones',
  quick_iters=9000, thorough_iters=150000)
R('r_serde', ['C20'], ['serde::Deserialize for HashMap', 'serde::Deserialize for HashSet', 'serde::Serialize for HashMap', 'serde::Serialize for HashSet', 'size_hint::cautious', 'deserialize_in_place'],
  'deserialise with duplicates keeps the last value; lying size hints reserve a bounded capacity; an error at any position neither leaks nor double-drops; serialize -> deserialize round trip; deserialize_in_place')


VERUS = {
    # unit -> dict(props, widths, tier, desc)
    'ctrl': dict(props=['C01', 'C06', 'C13', 'C02', 'C10', 'C18'], tier='quick',
                 desc='control-byte logic of the table core on extracted text over a Vec<u8> view of the control array, all table sizes, both widths: set_ctrl (mirror index, mirror invariant, frame), set_ctrl_hash, replace_ctrl_hash, is_bucket_full, record_item_insert_at (accounting F1), erase (EMPTY/DELETED, accounting, frame, no tombstone below one group, and the gap witness of the tombstone rule: EMPTY only when EMPTY bytes lie on both sides fewer than WIDTH apart), Tag, probe_seq, find_insert_slot_in_group / fix_insert_slot / find_insert_slot (result special, reachable for the probed hash, terminates), find_inner (sound, None-certificate, terminates for any eq), find_or_find_insert_slot_inner, prepare_rehash_in_place (FULL -> DELETED, everything else -> EMPTY, mirror rebuilt), prepare_insert_slot, clear_no_drop (valid empty table, full capacity, no tombstone); every control-byte access in bounds; lemma layer over these contracts: F1 gives an EMPTY bucket (L4), insert into the found slot and erase both preserve the reachability invariant F2 of every other element (L3, L2), lookup answers Some exactly when a FULL bucket accepted by eq exists (L5)',
                 paired={}),
    'guard': dict(props=['C04', 'C02', 'C03'], tier='quick',
                  desc='the scope-guard closure of rehash_in_place, extracted from inside the real function (closure header -> function header with the captures as parameters): from any state a hasher call can leave behind (buckets EMPTY / FULL / DELETED-marked, items counting the last two) it leaves no marker, items == #FULL, growth_left == capacity - items, mirror invariant intact, and exactly the un-rehashed elements are dropped, each once (drop log), when there is drop glue -- with and without drop glue; this is the clause the defect fixed by 7863c1b violated',
                  paired={}),
    'shrink': dict(props=['C08'], tier='quick',
                   desc='RawTable::shrink_to on extracted text against the contracts of capacity_to_buckets (proved in the same unit), with_capacity, resize and drop_inner_table: no element lost, never enlarges, empty + 0 frees the allocation, capacity() >= max(len, min(m, previous)), bucket count at most the one capacity_to_buckets gives for max(len, m); the unreachable_unchecked() after the infallible resize is dead',
                   paired={}),
    'glue': dict(props=['C01', 'C06', 'C14', 'C10', 'C13', 'C04', 'C11'], tier='quick',
                 desc='RawTable::insert, insert_in_slot, insert_no_grow, erase_no_drop, erase, remove, remove_entry (nothing found: untouched; found: exactly one erase), get (a reference only to the element of a FULL bucket) and replace_bucket_with on extracted text against the contracts of find_insert_slot, reserve, record_item_insert_at, erase and set_ctrl (all proved in unit ctrl): remove / erase are exactly an erase of the bucket and hand back that bucket as the free slot; replace_bucket_with either restores control bytes, mirror byte, items and growth_left exactly (closure returned Some) or is exactly an erase (None); the scope-guard closure of clone_from_impl (what runs when T::clone panics), extracted from inside the real function: exactly the FULL buckets below the progress index -- the clones made so far -- are dropped, each once, and nothing else; the slot handed to insert_in_slot is an EMPTY/DELETED bucket of the table as it is AFTER any reserve, an EMPTY bucket is consumed only while growth is left, mirror invariant and item count maintained',
                 paired={}),
    'grow': dict(props=['C13', 'C08', 'C12'], tier='quick',
                 desc='reserve_rehash_inner, RawTable::reserve, RawTable::try_reserve and RawTableInner::with_capacity on extracted text against the contracts of rehash_in_place, resize_inner and fallible_with_capacity (the hint::unreachable_unchecked() calls are proved dead): success gives room and loses nothing, tombstones are reclaimed in place exactly when len+additional <= capacity/2, otherwise growth to at least max(len+additional, capacity+1), errors only in fallible mode with nothing changed, unrepresentable requests reported; plus the churn lemma L6: every growth step the contract allows, with at most m live elements and additional = 1, lands on at most max(16, 5(m+1)) buckets, so along any insert/remove history buckets <= max(initial, that bound)',
                 paired={}),
    'rehash': dict(props=['C13', 'C01', 'C06', 'C03', 'C05'], tier='quick',
                   desc='rehash_in_place (the path on which no callback unwinds; the scope guard closure is unit guard) and is_in_same_group on extracted text, together with the functions they call (prepare_rehash_in_place, find_insert_slot, set_ctrl, set_ctrl_hash, replace_ctrl_hash, ...), for every table size and both widths, element storage as a ghost sequence of element identities, the hasher ARBITRARY (it may answer anything, differently on every call; only the placement clause assumes it is a function of the element): afterwards no tombstone is left, growth_left is the full slack, every FULL bucket carries the tag of its element and is reachable by a probe for its hash (every window probed before it is entirely FULL; this clause for lawful hashers), and the multiset of elements is unchanged (none lost, none duplicated); both loops terminate (the inner one because every swap turns a DELETED byte FULL); every bucket access in bounds, every raw element copy/swap between two different buckets',
                   paired={}),
    'resize': dict(props=['C08', 'C13', 'C01', 'C06', 'C03', 'C05'], tier='quick',
                   desc='resize_inner on extracted text together with the functions it calls on the new table (prepare_insert_slot, find_insert_slot, set_ctrl_hash, ...), for every pair of table sizes and both widths, element storage as ghost sequences of element identities, the hasher arbitrary (lawful only for the placement clause), against the contracts of prepare_resize (a fresh entirely EMPTY table with the requested capacity, or an error) and of the FullBucketsIndices iterator (the indices of the FULL buckets, ascending, each once): on success the table has room for the request, no tombstone, growth_left = capacity - items, every FULL bucket carries the tag of its element and is reachable by a probe for its hash, and the multiset of elements is unchanged; on error nothing changed and the caller asked for fallible behaviour; find_insert_slot is only ever called on a table that still has an EMPTY bucket (counting argument from items <= capacity < buckets)',
                   paired={}),
    'set': dict(props=['C07', 'C11'], tier='quick',
                desc='HashSet set algebra on extracted text over an abstract view (the mathematical set of elements plus the duplicate-free order in which the iterator yields them; contains / len as specified by C01): Intersection::next and Difference::next (the next element of the driving set that is / is not in the other set, everything skipped is not / is), the constructors difference, intersection (whichever set is smaller drives: exactly A n B), union (one set in full, then the rest of the other: exactly A u B, nothing twice), symmetric_difference (exactly the elements in one set only, nothing twice), and is_subset / is_superset / is_disjoint equal the mathematical predicates, including the length pre-check of is_subset (cardinality lemma); HashSet::eq is equality of the element sets and HashMap::eq holds exactly when both maps have the same keys with values that compare equal (for a value type whose == meets its specification), whatever the layout, capacity, history or hasher',
                paired={}),
    'iterhash': dict(props=['C06', 'C02', 'C13'], tier='quick',
                     desc='RawIterHashInner::next (the probe-sequence iterator behind HashTable::iter_hash / iter_hash_mut) on extracted text, for every table size and both widths: every yielded index is a bucket of the table and a FULL one (so the reference handed out is in bounds and to a live element), the group load stays inside the control array, the iteration ends only at a window holding an EMPTY byte, and it terminates (probe-cycle theorem + load factor)',
                     paired={}),
    'many': dict(props=['C15', 'C05'], tier='quick',
                 desc='RawTable::get_many_mut on extracted text, pointers into the table kept as bucket indices, for any N and ANY result of the N lookups (unlawful equality closures included): turning the N pointers into N exclusive references requires that no two of them are the same bucket -- the precondition of that conversion -- and the duplicate check of the real text establishes it on every path that returns (the other path panics)',
                 paired={}),
    'dropglue': dict(props=['C03', 'C10', 'C02'], tier='quick',
                     desc='the drop / clear glue on extracted text (RawTableInner::drop_inner_table, Drop for RawTable, RawTable::clear incl. its scope guard -- which is not forgotten, so its closure runs when the block ends --, RawTable::clear_no_drop, Drop for RawDrain) against the contracts of drop_elements (unit iter), clear_no_drop (unit ctrl) and free_buckets, whose preconditions make double drop, leak and double free into obligations: an allocated table has every element dropped once and is then freed once, the unallocated singleton is left alone, clear drops everything and then resets the control bytes (an already empty table is left as it is), a drain drops what is left, resets its table and moves a valid empty table back into the map; drain_iter_from moves the real table into the drain and leaves the unallocated singleton behind (so a leaked drain leaves a valid empty map). Also RawTable::into_iter, into_iter_from and Drop for RawIntoIter: the owning iterator takes the block exactly when the table had one, and its drop first drops what was not yielded (once) and then gives the block back (once, and only if there is one); the scope-guard closure of prepare_resize gives every allocated table back once, also one with zero items, and never the singleton',
                     paired={}),
    'clone': dict(props=['C11', 'C02'], tier='quick',
                  desc='RawTable::clone_from_impl on extracted text (no-unwind path; its guard closure is in unit glue), for every table size and both widths, element identities ghost, T::clone an arbitrary function of the element: the control bytes of the target are the source\'s verbatim (so tombstones, probe chains and reachability are reproduced), items and growth_left are copied, and every FULL bucket holds a clone of the source\'s element in the same bucket; every control-byte and bucket access in bounds; terminates',
                  paired={}),
    'pardrain': dict(props=['C19', 'C03'], tier='quick',
                     desc='rayon ParDrainProducer on extracted text (src/external_trait_impls/rayon/raw.rs) together with the RawIterRange functions it uses: split (the two halves partition what the producer owned), fold_with against an ARBITRARY consumer that may report full at any time (a prefix of the ascending enumeration is handed to the consumer, the rest is dropped by the Drop impl that Rust runs at the early return -- written out by rule R35 -- so every element is consumed or dropped exactly once; when the range is exhausted the producer is forgotten and nothing is left), Drop (exactly the elements not yet handed out, each once)',
                     paired={}),
    'retain': dict(props=['C10', 'C06'], tier='quick',
                   desc='HashMap::retain, HashTable::retain and RawExtractIf::next (the engine of every extract_if) on extracted text against the contracts of the raw iterator (unit iter) and of RawTable::erase (units glue / ctrl), for any predicate closure and every table size: the predicate is asked about every element exactly once, in ascending bucket order; an element stays exactly when the predicate said so; kept elements and non-FULL buckets are untouched; every erase has the item count and growth headroom it needs; terminates. RawExtractIf::next hands out and removes exactly the first element after its cursor that the predicate accepts, asks the predicate about nothing else, and keeps the invariant the next call needs',
                   paired={}),
    'assoc': dict(props=['C01', 'C06'], tier='quick',
                  desc='lemma-only unit over the contracts of units ctrl / rehash / resize: what rehash_in_place and resize_inner establish (every FULL bucket placed) is the reachability invariant F2 that insert and erase are proved to preserve; and lookup BY KEY: for a lawful Eq (the closure accepts exactly the buckets holding an element with key k) and a lawful Hash (such elements were stored under the probed hash), find_inner answers Some exactly when an element with key k is stored, and the bucket it returns holds one',
                  paired={}),
    'serde': dict(props=['C20'], tier='quick',
                  desc='the serde visitors on extracted text (MapVisitor::visit_map, SeqVisitor::visit_seq, the in-place SeqInPlaceVisitor::visit_seq, size_hint::cautious) over an ARBITRARY input: any sequence of entries that ends or fails at some position, with an arbitrary (lying) size hint: the pre-allocation request never exceeds 4096 whatever the hint claims (obligation of with_capacity / reserve), every entry is inserted in order (a repeated key keeps its last value), the in-place form first empties the target, an input error is passed on and nothing else produces one; the loops terminate',
                  paired={}),
    'alloc': dict(props=['C12', 'C08', 'C02', 'C03'], tier='quick',
                  desc='the allocation path on extracted text: new_uninitialized (against the contracts of calculate_layout_for and of the allocator call: the control pointer block + ctrl_offset stays inside the block, buckets + WIDTH control bytes follow it, bucket_mask = buckets - 1 < 2^62, growth_left = capacity), fallible_with_capacity (capacity 0 gives the unallocated singleton, otherwise a table with the minimal admissible bucket count, every control byte EMPTY, nothing stored, whole capacity available) and prepare_resize (the same, which is the contract unit resize assumes); every error return happens in fallible mode only; allocation_info / allocation_size_or_zero / free_buckets: calculate_layout_for being a function of its arguments, a table that was allocated for an element layout gets back exactly that block and layout (so the unreachable_unchecked is dead, the reported allocation size is data + padding + control bytes, and deallocate is called with the pointer and layout of the allocation); RawTable::into_allocation hands on the block of every allocated table, empty or not, and nothing for the unallocated singleton',
                  paired={}),
    'iter': dict(props=['C09', 'C19', 'C02', 'C03'], tier='quick',
                 desc='the raw iterator core on extracted text, control pointers and buckets kept as indices into an arbitrary table (any power-of-two size, both widths): RawIterRange::new (yields exactly the FULL buckets of its range), RawIterRange::next_impl in checked and unchecked mode (returns the smallest remaining FULL bucket, consumes exactly it, None only when nothing is left, every group load aligned and in bounds, terminates), RawIter::next (items counts exactly what is left; None iff items == 0), RawIterRange::split (the two halves partition the remaining buckets, both again well-formed), RawIterRange::fold_impl (the closure is called on exactly the remaining FULL buckets, ascending, each once, accumulator threaded), FullBucketsIndices::next_impl / next (same contract over bucket indices; with lemma_min_is_next_enum this is the ascending enumeration that unit resize assumes); RawIter::drop_elements and RawTableInner::drop_elements (when the element type needs dropping and elements remain, exactly the remaining FULL buckets are dropped, ascending, each once; otherwise none); lemma L8: the leaves of any split tree yield every bucket of the root exactly once',
                 paired={}),
    'arith': dict(props=['C17', 'C08', 'C12', 'C13'], tier='quick',
                  desc='capacity / layout / probe-step arithmetic on extracted text (incl. TableLayout::new: ctrl_align is a power of two, at least the group width and at least the element alignment), and the probe-cycle theorem (triangular numbers are distinct modulo 2^g; k calls of move_next reach (start + W*k(k+1)/2) mod n; the first n/W positions are pairwise different and group-aligned), layout containment L7 over the contract of calculate_layout_for (element ranges below the control bytes, pairwise disjoint, aligned for T; control bytes end where the allocation ends), all inputs, all table sizes, both group widths',
                  # Verus function -> the complete CBMC obligation proving the same contract (used for the
                  # brittleness exception and to search for a failing input)
                  paired={'capacity_to_buckets': 'h_capacity_to_buckets',
                          'TableLayout::new': 'h_table_layout_new',
                          'bucket_mask_to_capacity': 'h_bucket_mask_to_capacity',
                          'TableLayout::calculate_layout_for': 'h_calculate_layout_for',
                          'ProbeSeq::move_next': 'h_move_next',
                          'h1': 'h_h1'}),
}

PROPERTIES = ['C%02d' % i for i in range(1, 21)]


def kani_for(prop, tier):
    """-> list of (obligation, [cfgs to run at this tier])"""
    out = []
    for o in KANI.values():
        if prop not in o['props']:
            continue
        cfgs = []
        for c in o['cfgs']:
            t = (o.get('cfg_tier') or {}).get(c, o['tier'])
            if tier == 'thorough' or t == 'quick':
                cfgs.append(c)
        if cfgs:
            out.append((o, cfgs))
    return out


def verus_for(prop, tier):
    return [u for u, d in VERUS.items() if prop in d['props'] and (tier == 'thorough' or d['tier'] == 'quick')]


def native_for(prop, tier):
    return [o for o in NATIVE.values() if prop in o['props']]
