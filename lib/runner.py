"""Check runner: selects the obligations of a property, runs the back ends on /repo's working
tree, reduces the results to a verdict, replays counterexamples natively, writes evidence."""
import hashlib
import json
import os
import re
import shutil
import subprocess
import sys
import threading
import time

import registry
import vunits
from extract import ExtractError

VERIF = os.path.dirname(os.path.dirname(os.path.abspath(__file__)))
REPO = os.environ.get('VERIF_REPO', '/repo')
BUILD = os.environ.get('VERIF_BUILD', os.path.join(VERIF, 'build'))
HOOK = os.path.join(VERIF, 'hook')
NCPU = os.cpu_count() or 8


def log(*a):
    print(*a, file=sys.stderr, flush=True)


# ---------------------------------------------------------------------------
# tree key (cache is keyed by the exact content of everything a result depends on)
# ---------------------------------------------------------------------------

def _hash_dir(h, root, exts):
    for dp, dn, fn in sorted(os.walk(root)):
        dn.sort()
        if '/target' in dp or '/.git' in dp or '/build' in dp:
            continue
        for f in sorted(fn):
            if f.endswith(exts):
                p = os.path.join(dp, f)
                h.update(p.encode())
                h.update(open(p, 'rb').read())


def _repo_hash(h):
    _hash_dir(h, os.path.join(REPO, 'src'), ('.rs',))
    for f in ('Cargo.toml', 'Cargo.lock'):
        p = os.path.join(REPO, f)
        if os.path.exists(p):
            h.update(open(p, 'rb').read())


def kani_key():
    """everything a Kani result depends on: /repo sources + the hook"""
    h = hashlib.sha256(b'kani')
    _repo_hash(h)
    # only the hook files that are compiled under cfg(kani) (the native-only obligation files are not)
    for f in ('verif.rs', 'pure.rs', 'state.rs', 'rawh.rs', 'harness_list.rs', 'serde_verif.rs'):
        h.update(open(os.path.join(VERIF, 'hook', f), 'rb').read())
    return h.hexdigest()[:24]


def verus_key():
    """everything a Verus result depends on: /repo sources + contracts, preludes, lemmas, extractor"""
    h = hashlib.sha256(b'verus')
    _repo_hash(h)
    for d in ('contracts', 'preludes', 'lemmas'):
        _hash_dir(h, os.path.join(VERIF, d), ('.rs', '.vspec'))
    for f in ('lib/extract.py', 'lib/vunits.py', 'lib/rustlex.py'):
        h.update(open(os.path.join(VERIF, f), 'rb').read())
    return h.hexdigest()[:24]


def tree_key():
    return kani_key()[:12] + verus_key()[:12]


def cache_get(key, oid):
    p = os.path.join(BUILD, 'cache', key, oid.replace('/', '_').replace(':', '_') + '.json')
    if os.environ.get('VERIF_NO_CACHE'):
        return None
    try:
        return json.load(open(p))
    except Exception:
        return None


def cache_put(key, oid, val):
    d = os.path.join(BUILD, 'cache', key)
    os.makedirs(d, exist_ok=True)
    json.dump(val, open(os.path.join(d, oid.replace('/', '_').replace(':', '_') + '.json'), 'w'))


# ---------------------------------------------------------------------------
# Kani
# ---------------------------------------------------------------------------

def kani_env(cfg):
    env = dict(os.environ)
    env['HASHBROWN_VERIF_DIR'] = HOOK
    env['RUSTFLAGS'] = registry.CFGS[cfg]
    env['CARGO_NET_OFFLINE'] = 'true'
    return env


def kani_target(cfg):
    tag = hashlib.sha256(REPO.encode()).hexdigest()[:8] if REPO != '/repo' else 'repo'
    return os.path.join(BUILD, 'kani-%s-%s' % (cfg, tag))


def kani_cmd(cfg, paths, jobs, timeout, export, extra=()):
    cmd = ['cargo', 'kani', '-Z', 'function-contracts', '-Z', 'stubbing', '-Z', 'unstable-options',
           '--features', registry.FEATURES, '--exact']
    for p in paths:
        cmd += ['--harness', p]
    cmd += ['-j', str(jobs), '--output-format', 'terse', '--harness-timeout', '%ds' % timeout,
            '--target-dir', kani_target(cfg)]
    if export:
        cmd += ['--export-json', export]
    cmd += list(extra)
    return cmd


BAD_OK = ('Success', 'Unreachable', 'Satisfied')


def parse_kani_json(path, log_text):
    """-> {harness_path: result}"""
    out = {}
    try:
        d = json.load(open(path))
    except Exception as e:
        return out
    stats = {c['harness_id']: (c.get('cbmc_stats') or {}) for c in d.get('cbmc', [])}
    for r in d['verification_results']['results']:
        hid = r['harness_id']
        checks = r.get('checks') or []
        failed_all = [c for c in checks if c['status'] == 'Failure']
        # a reachable construct the verifier cannot translate is a tool limit (UNDECIDED), not a refutation
        unsupported = [c for c in failed_all if 'not currently supported by Kani' in (c.get('description') or '') or c.get('category') == 'unsupported_construct']
        failed = [c for c in failed_all if c not in unsupported]
        undet = [c for c in checks if c['status'] in ('Undetermined', 'Unknown')]
        covers_unsat = [c for c in checks if c['status'] in ('Unsatisfiable', 'Uncoverable')]
        covers_sat = [c for c in checks if c['status'] in ('Satisfied', 'Covered')]
        if r['status'] == 'Success':
            status = 'pass'
        elif failed:
            status = 'fail'
        else:
            status = 'undecided'   # timeout, out of memory, solver error: never a violation
        # our own named clauses: assertion category in /verif/hook files
        named = [c for c in checks if c.get('category') == 'assertion' and '/hook/' in (c.get('location') or {}).get('file', '')]
        st = stats.get(hid, {})
        out[hid] = dict(
            status=status, duration_s=r.get('duration_ms', 0) / 1000.0, n_checks=len(checks),
            n_named=len(named),
            failed=[dict(desc=c['description'], fn=c.get('function'), loc='%s:%s' % ((c.get('location') or {}).get('file'), (c.get('location') or {}).get('line')), cat=c.get('category')) for c in failed][:20],
            covers_unsat=[c['description'] for c in covers_unsat], covers_sat=len(covers_sat),
            named_samples=sorted(set(c['description'] for c in named))[:12],
            solver_s=st.get('runtime_solver_s'), symex_s=st.get('runtime_symex_s'),
            vccs=st.get('vccs_generated'),
            reason=('' if status != 'undecided' else ('construct not supported by the verifier: %s' % unsupported[0]['description'][:120] if unsupported else 'no result (timeout / resource limit)')))
    return out


def run_kani_cfg(cfg, obls, results, key):
    """Run the uncached obligations of one cfg in one cargo-kani invocation."""
    todo = []
    for o in obls:
        oid = 'k:%s:%s' % (o['name'], cfg)
        c = cache_get(key, oid)
        if c is not None and c.get('status') in ('pass', 'fail'):
            c['cached'] = True
            results[oid] = c
        else:
            todo.append(o)
    if not todo:
        return
    os.makedirs(BUILD, exist_ok=True)
    export = os.path.join(BUILD, 'kani_%s_%d_%d.json' % (cfg, os.getpid(), int(time.time() * 1000) % 100000))
    mem = sum(o['mem'] for o in todo)
    # memory-aware parallelism: at most ~40 GB of estimated CBMC/kani-driver RSS in flight (62 GB, no swap)
    jobs = max(1, min(len(todo), NCPU - 2, int(len(todo) * 40 / max(mem, 1)) or 1))
    timeout = max(o['timeout'] for o in todo) * (3 if os.environ.get('VERIF_TIER_RUNNING') == 'thorough' else 1)
    cmd = kani_cmd(cfg, [o['path'] for o in todo], jobs, timeout, export)
    log('[kani:%s] %d harnesses, -j %d, timeout %ds' % (cfg, len(todo), jobs, timeout))
    t0 = time.time()
    p = subprocess.run(cmd, cwd=REPO, env=kani_env(cfg), capture_output=True, text=True)
    text = p.stdout + p.stderr
    parsed = parse_kani_json(export, text) if os.path.exists(export) else {}
    if not parsed:
        # no result at all (build hiccup, e.g. a concurrent cargo invocation on the same files): one retry
        time.sleep(5)
        p = subprocess.run(cmd, cwd=REPO, env=kani_env(cfg), capture_output=True, text=True)
        text = p.stdout + p.stderr
        parsed = parse_kani_json(export, text) if os.path.exists(export) else {}
    wall = time.time() - t0
    open(export.replace('.json', '.log'), 'w').write(text)
    compile_error = ('error: could not compile' in text) or ('error[E' in text) or (not parsed and 'error:' in text)
    for o in todo:
        oid = 'k:%s:%s' % (o['name'], cfg)
        r = parsed.get(o['path'])
        if r is None:
            why = 'hook/crate does not compile under Kani' if compile_error else 'harness produced no result'
            tail = '\n'.join([l for l in text.split('\n') if l.startswith('error')][:8])
            r = dict(status='undecided', reason=why + (': ' + tail if tail else ''), duration_s=wall, n_checks=0, n_named=0,
                     failed=[], covers_unsat=[], covers_sat=0, named_samples=[])
        bad_cov = [c for c in r.get('covers_unsat', []) if c not in o.get('expect_unsat_covers', [])]
        if r['status'] == 'pass' and bad_cov:
            r['status'] = 'undecided'
            r['reason'] = 'vacuity guard: cover not satisfiable: %s' % bad_cov[:3]
        # a harness that only the thorough tier runs (largest table sizes) and that gets no answer within its
        # time budget was simply not explored: reported, recorded, but not a reason to fail the run
        thorough_only = ((o.get('cfg_tier') or {}).get(cfg, o.get('tier')) == 'thorough')
        if r['status'] == 'undecided' and thorough_only and (r.get('reason') or '').startswith('no result (timeout'):
            r['soft'] = True
            r['reason'] = 'not explored: no answer within the %d s budget (thorough-only harness, bound %s)' % (timeout, o.get('bound'))
        r.update(engine='kani', cfg=cfg, name=o['name'], label=o['label'], desc=o['desc'], bound=o['bound'], fns=o['fns'],
                 cached=False, supplementary_for=o.get('supplementary_for', []))
        results[oid] = r
        if r['status'] in ('pass', 'fail'):
            cache_put(key, oid, r)
    for f in (export,):
        try:
            os.remove(f)
        except OSError:
            pass


# ---------------------------------------------------------------------------
# counterexample: concrete playback + native replay on the real code
# ---------------------------------------------------------------------------

def kani_playback(cfg, o):
    cmd = kani_cmd(cfg, [o['path']], 1, o['timeout'], None, extra=['-Z', 'concrete-playback', '--concrete-playback=print'])
    p = subprocess.run(cmd, cwd=REPO, env=kani_env(cfg), capture_output=True, text=True)
    text = p.stdout
    # first generated test: sequence of `vec![..]` lines inside concrete_vals
    m = re.search(r'let concrete_vals: Vec<Vec<u8>> = vec!\[(.*?)\];\s*kani::concrete_playback_run', text, re.S)
    if not m:
        return None, text[-3000:]
    vals = []
    for vm in re.finditer(r'vec!\[([0-9,\s]*)\]', m.group(1)):
        body = vm.group(1).strip()
        vals.append([int(x) for x in body.split(',') if x.strip()] if body else [])
    return vals, ''


def build_replay_bin(cfg):
    env = kani_env(cfg)
    env['VERIF_REPO_PATH'] = REPO
    tdir = os.path.join(BUILD, 'replay-target-%s' % cfg)
    crate = os.path.join(BUILD, 'replay-crate-%s' % cfg)
    os.makedirs(os.path.join(crate, 'src'), exist_ok=True)
    shutil.copy(os.path.join(VERIF, 'replay', 'src', 'main.rs'), os.path.join(crate, 'src', 'main.rs'))
    toml = open(os.path.join(VERIF, 'replay', 'Cargo.toml.in')).read().replace('@REPO@', REPO)
    open(os.path.join(crate, 'Cargo.toml'), 'w').write(toml)
    lock = os.path.join(REPO, 'Cargo.lock')
    if os.path.exists(lock):
        shutil.copy(lock, os.path.join(crate, 'Cargo.lock'))
    p = subprocess.run(['cargo', 'build', '--offline', '--target-dir', tdir], cwd=crate, env=env, capture_output=True, text=True)
    if p.returncode != 0:
        # retry without the copied lock file
        try:
            os.remove(os.path.join(crate, 'Cargo.lock'))
        except OSError:
            pass
        p = subprocess.run(['cargo', 'build', '--offline', '--target-dir', tdir], cwd=crate, env=env, capture_output=True, text=True)
    if p.returncode != 0:
        return None, p.stderr[-3000:]
    return os.path.join(tdir, 'debug', 'hb_replay'), ''


def native_replay(cfg, name, vals):
    binp, err = build_replay_bin(cfg)
    if not binp:
        return dict(ran=False, why='replay binary did not build: ' + err)
    inp = name + '\n' + '\n'.join(' '.join(str(b) for b in v) for v in vals) + '\n'
    try:
        p = subprocess.run([binp], input=inp, capture_output=True, text=True, timeout=120)
    except subprocess.TimeoutExpired:
        return dict(ran=True, reproduced=True, outcome='native run did not terminate within 120 s')
    out = (p.stdout + p.stderr).strip()
    if p.returncode == 0:
        return dict(ran=True, reproduced=False, outcome=out[-600:])
    return dict(ran=True, reproduced=True, outcome=out[-1200:], exit=p.returncode)


# ---------------------------------------------------------------------------
# engine R: native evaluation of the contracts on sampled states
# ---------------------------------------------------------------------------

def run_native(obls, tier, seed, results):
    from concurrent.futures import ThreadPoolExecutor
    bins = {}
    for cfg in sorted(set(c for o in obls for c in o['cfgs'])):
        b, err = build_replay_bin(cfg)
        bins[cfg] = (b, err)
    jobs = []
    for o in obls:
        for cfg in o['cfgs']:
            jobs.append((o, cfg))

    def one(job):
        o, cfg = job
        oid = 'r:%s:%s' % (o['name'], cfg)
        b, err = bins[cfg]
        base = dict(engine='native', cfg=cfg, name=o['name'], label='R', desc=o['desc'], fns=o['fns'], cached=False,
                    bound='sampled abstract states; table size and width in the obligation name')
        if not b:
            base.update(status='undecided', reason='native driver does not build against this tree: ' + err[-800:])
            return oid, base
        iters = o['thorough_iters'] if tier == 'thorough' else o['quick_iters']
        sd = 0x5EED + int(seed)
        t0 = time.time()
        try:
            p = subprocess.run([b, '--sample', o['name'], str(sd), str(iters)], capture_output=True, text=True, timeout=3600)
        except subprocess.TimeoutExpired:
            base.update(status='fail', failed=[dict(desc='sampled evaluation did not terminate within 3600 s (possible non-termination in the code under test)')],
                        duration_s=3600)
            return oid, base
        out = p.stdout + p.stderr
        m = re.search(r'evaluated=(\d+) discarded=(\d+) breaches=(\d+)', out)
        base['duration_s'] = time.time() - t0
        if m:
            base['evaluated'] = int(m.group(1))
            base['discarded'] = int(m.group(2))
        if p.returncode == 0 and m and int(m.group(3)) == 0:
            if int(m.group(1)) == 0:
                base.update(status='undecided', reason='vacuity guard: no sampled input met the precondition')
            else:
                base['status'] = 'pass'
        elif p.returncode == 3:
            base.update(status='undecided', reason='obligation unknown to the native driver')
        else:
            bm = re.search(r'BREACH: (.*) \(iteration (\d+) sample-seed (\d+)\)', out)
            if bm:
                base.update(status='fail', failed=[dict(desc=bm.group(1))], sample_seed=int(bm.group(3)), iteration=int(bm.group(2)))
            else:
                base.update(status='fail', failed=[dict(desc='native run of the real code crashed (signal / abort): ' + out[-400:])], crashed=True)
        return oid, base

    with ThreadPoolExecutor(max_workers=max(2, NCPU - 2)) as ex:
        for oid, r in ex.map(one, jobs):
            results[oid] = r


# ---------------------------------------------------------------------------
# Verus
# ---------------------------------------------------------------------------

REFUTE_PAT = re.compile(r'error: (postcondition not satisfied|precondition not satisfied|assertion failed|invariant not satisfied[^\n]*|'
                        r'possible arithmetic underflow/overflow|possible division by zero|decreases not satisfied[^\n]*|'
                        r'loop invariant not satisfied[^\n]*|possible bit shift underflow/overflow|recommendation not met[^\n]*|'
                        r'unreachable_unchecked[^\n]*|bitvector assertion not satisfied|assert_nonlinear_by[^\n]*not[^\n]*|'
                        r'could not prove termination|index out of bounds[^\n]*|cannot show[^\n]*)')


def split_verus_errors(stderr):
    """-> list of (kind, line_no, message_block)"""
    blocks = re.split(r'\n(?=error)', '\n' + stderr)
    out = []
    for b in blocks:
        b = b.strip()
        if not b.startswith('error'):
            continue
        m = re.search(r'-->\s*[^:\n]+:(\d+):\d+', b)
        line = int(m.group(1)) if m else None
        if b.startswith('error: aborting'):
            continue
        if 'Resource limit (rlimit) exceeded' in b:
            kind = 'rlimit'
        elif REFUTE_PAT.search(b):
            kind = 'refuted'
        else:
            kind = 'other'
        out.append((kind, line, b[:1500]))
    return out


def fn_line_ranges(path):
    """map generated-file line -> enclosing fn name (exec fns and proof fns)"""
    ranges = []
    cur = None
    impl = None
    depth = 0
    for ln, line in enumerate(open(path).read().split('\n'), 1):
        m = re.match(r'\s*impl\s+(\w+)\s*\{', line)
        if m and depth <= 1:
            impl = m.group(1)
        m = re.match(r'\s*(?:pub(?:\([a-z]+\))?\s+)?(?:(?:unsafe|const|proof|spec|open|closed|uninterp)\s+)*fn\s+(\w+)', line)
        if m:
            nm = m.group(1)
            cur = (impl + '::' + nm) if (impl and line.startswith(' ') is False and False) else nm
            ranges.append([ln, nm])
        if re.match(r'^\}', line):
            impl = None
    return ranges


def run_verus_unit(unit, width, results, key):
    oid_prefix = 'v:%s:w%d' % (unit, width)
    cached = cache_get(key, oid_prefix)
    if cached is not None:
        for k, v in cached.items():
            v['cached'] = True
            results[k] = v
        return
    u = registry.VERUS[unit]
    local = {}
    outdir = os.path.join(BUILD, 'vx')
    try:
        path, meta, hits = vunits.generate(unit, width, outdir)
    except (ExtractError, Exception) as e:
        oid = oid_prefix + ':<extract>'
        local[oid] = dict(status='undecided', reason='extraction: %s' % e, engine='verus', unit=unit, width=width, label='P',
                          name='<extract>', desc=u['desc'], fns=[], cached=False, soft=True)
        results.update(local)
        return
    r = vunits.run_verus(path)
    assumptions = vunits.scan_assumptions(path)
    errs = split_verus_errors(r.get('stderr') or '')
    ranges = fn_line_ranges(path)

    def fn_at(line):
        nm = None
        for ln, n in ranges:
            if ln <= line:
                nm = n
            else:
                break
        return nm
    by_fn = {}
    for kind, line, block in errs:
        nm = fn_at(line) if line else None
        by_fn.setdefault(nm, []).append((kind, block))
    metas = {m['key']: m for m in meta}
    if r['status'] != 'ok' or not r['funcs']:
        oid = oid_prefix + ':<verus>'
        why = 'verus did not produce a verification result (dialect/compile error)' if r['status'] == 'error' else r['status']
        local[oid] = dict(status='undecided', reason=why + ': ' + (r.get('stderr') or '')[-1500:], engine='verus', unit=unit,
                          width=width, label='P', name='<verus>', desc=u['desc'], fns=[], cached=False, soft=(r['status'] == 'error'))
        results.update(local)
        return
    canary_seen = False
    for fname, f in r['funcs'].items():
        short = fname.split('::')[-1]
        if short == 'canary__':
            canary_seen = True
            if f['success']:
                local[oid_prefix + ':canary'] = dict(status='undecided', reason='vacuity canary `ensures false` was accepted: prelude is contradictory',
                                                    engine='verus', unit=unit, width=width, label='P', name='canary__', desc='vacuity canary', fns=[], cached=False)
            continue
        if short.startswith('canary_'):
            # `requires <hypotheses of a contract or lemma> ensures false`: MUST fail, else the hypotheses are contradictory
            if f['success']:
                local[oid_prefix + ':' + short] = dict(status='undecided', reason='vacuity canary %s was accepted: the hypotheses it names are contradictory' % short,
                                                       engine='verus', unit=unit, width=width, label='P', name=short, desc='vacuity canary', fns=[], cached=False)
            continue
        if f.get('mode') == 'spec':
            continue
        if short == 'clone' or 'impl&%' in fname:
            continue        # derived Clone impls and associated constants of the prelude: nothing to prove, not counted
        oid = '%s:%s' % (oid_prefix, fname)
        src = metas.get(fname)
        kind = 'contract on extracted real function' if src else ('lemma' if f.get('mode') == 'proof' else 'prelude shim')
        rec = dict(engine='verus', unit=unit, width=width, label='P', name=fname, kind=kind, desc=u['desc'],
                   fns=[fname] if src else [], source=src, time_ms=f['time_us'] / 1000.0, rlimit=f['rlimit'], cached=False)
        if f['success']:
            rec['status'] = 'pass'
        elif not src:
            # a lemma or prelude shim is independent of /repo's code: its failure is proof instability
            # (solver context effects), never evidence against the code
            rec['status'] = 'undecided'
            rec['soft'] = True
            rec['reason'] = 'verus: code-independent lemma/shim not re-proved in this context (proof instability)'
        else:
            es = by_fn.get(short, [])
            kinds = set(k for k, _ in es)
            if 'refuted' in kinds:
                rec['status'] = 'fail'
                rec['failed'] = [b for k, b in es if k == 'refuted'][:5]
            else:
                rec['status'] = 'undecided'
                rec['reason'] = 'verus: ' + ('rlimit exceeded' if 'rlimit' in kinds else 'not verified, no refutation reported') + \
                                ('\n' + es[0][1] if es else '')
        local[oid] = rec
    if not canary_seen:
        local[oid_prefix + ':canary'] = dict(status='undecided', reason='vacuity canary missing from verifier output', engine='verus', unit=unit,
                                            width=width, label='P', name='canary__', desc='vacuity canary', fns=[], cached=False)
    for k, v in local.items():
        v['unit_info'] = dict(file=path, rewrite_hits=hits, assumptions=assumptions, wall_s=r['wall'], smt_ms=r.get('smt_ms'))
    results.update(local)
    if all(v['status'] in ('pass', 'fail') for v in local.values()):
        cache_put(key, oid_prefix, local)


# ---------------------------------------------------------------------------
# verdict
# ---------------------------------------------------------------------------

def load_known():
    p = os.path.join(VERIF, 'known_findings.json')
    try:
        return json.load(open(p))
    except Exception:
        return {'findings': [], 'fixed': []}


def check_property(prop, tier, seed=0):
    t0 = time.time()
    os.environ['VERIF_TIER_RUNNING'] = tier
    key = tree_key()
    kkey, vkey = kani_key(), verus_key()
    results = {}
    kobls = registry.kani_for(prop, tier)
    vunits_needed = registry.verus_for(prop, tier)
    # Verus first (seconds)
    for u in vunits_needed:
        for w in vunits.UNITS[u]['widths']:
            run_verus_unit(u, w, results, vkey)
    # Kani: one invocation per cfg, concurrently
    threads = []
    for cfg in registry.CFGS:
        obls = [o for (o, cfgs) in kobls if cfg in cfgs]
        if obls:
            th = threading.Thread(target=run_kani_cfg, args=(cfg, obls, results, kkey))
            th.start()
            if tier == 'thorough':
                th.join()   # the large thorough obligations need the memory: one configuration at a time
            threads.append(th)
    nobls = registry.native_for(prop, tier)
    if nobls:
        run_native(nobls, tier, seed, results)
    for th in threads:
        th.join()

    # brittleness exception: a failed Verus contract whose paired *complete* CBMC obligation
    # passes on the same tree is discharged by the other back end
    for oid, r in list(results.items()):
        if r['engine'] == 'verus' and r['status'] in ('fail', 'undecided') and r.get('source'):
            paired = registry.VERUS[r['unit']].get('paired', {}).get(r['name'])
            if paired:
                cfg = 'sse2' if r['width'] == 16 else 'generic'
                poid = 'k:%s:%s' % (paired, cfg)
                if poid not in results:
                    run_kani_cfg(cfg, [registry.KANI[paired]], results, kkey)
                pr = results.get(poid)
                if pr and pr['status'] == 'pass' and pr['label'] == 'C':
                    r['status_verus'] = r['status']
                    r['status'] = 'pass'
                    r['discharged_by'] = 'back end A (Verus) undecided/failed; same contract discharged by complete CBMC obligation %s' % poid
                    r['label'] = 'C'

    violations, undecided = [], []
    known = load_known()
    for oid, r in sorted(results.items()):
        if r['status'] == 'fail':
            violations.append(oid)
        elif r['status'] == 'undecided':
            undecided.append(oid)

    replay_dir = os.path.join(VERIF, 'replays') if REPO == '/repo' else os.path.join(BUILD, 'replays-scratch')
    out_lines = []
    n_viol = 0
    for oid in violations:
        r = results[oid]
        os.makedirs(replay_dir, exist_ok=True)
        rp = os.path.join(replay_dir, '%s__%s.json' % (prop, oid.replace(':', '_').replace('/', '_')))
        rec = dict(property=prop, obligation=oid, engine=r['engine'], description=r.get('desc'), failed=r.get('failed'),
                   repo=REPO, tree_key=key)
        suffix = ''
        if r['engine'] == 'native':
            rec['harness'] = r['name']
            rec['cfg'] = r['cfg']
            rec['sample_seed'] = r.get('sample_seed')
            if r.get('sample_seed') is not None:
                binp, _ = build_replay_bin(r['cfg'])
                p = subprocess.run([binp, '--one', r['name'], str(r['sample_seed'])], capture_output=True, text=True)
                rec['native_replay'] = dict(ran=True, reproduced=p.returncode != 0, outcome=(p.stdout + p.stderr).strip()[-600:])
            else:
                rec['native_replay'] = dict(ran=True, reproduced=True, outcome=(r.get('failed') or [{}])[0].get('desc'))
        elif r['engine'] == 'kani':
            o = registry.KANI[r['name']]
            vals, err = kani_playback(r['cfg'], o)
            if vals is None:
                rec['playback'] = 'no concrete values extracted: ' + err[-800:]
                suffix = ' no-failing-input-found'
            else:
                rec['concrete_vals'] = vals
                rec['harness'] = r['name']
                rec['cfg'] = r['cfg']
                nat = native_replay(r['cfg'], r['name'], vals)
                rec['native_replay'] = nat
                if not (nat.get('ran') and nat.get('reproduced')):
                    # the failing property may be one only the verifier can see (pointer validity, unwinding)
                    rec['note'] = 'CBMC counterexample found; native run of the same inputs did not report a breach (memory-safety / unwinding checks are visible to the verifier only)'
        else:
            # Verus gives no model: look for an input with the paired CBMC obligation
            paired = registry.VERUS[r['unit']].get('paired', {}).get(r['name'])
            found = False
            if paired:
                cfg = 'sse2' if r['width'] == 16 else 'generic'
                pr = results.get('k:%s:%s' % (paired, cfg))
                if pr and pr['status'] == 'fail':
                    vals, err = kani_playback(cfg, registry.KANI[paired])
                    if vals is not None:
                        rec['concrete_vals'] = vals
                        rec['harness'] = paired
                        rec['cfg'] = cfg
                        rec['native_replay'] = native_replay(cfg, paired, vals)
                        found = True
            if not found:
                suffix = ' no-failing-input-found'
            rec['verifier_output'] = r.get('failed')
            # corroboration by the other engines on the same real function (information for triage: a failed
            # proof with every executed contract of the function still passing may be proof brittleness)
            same = [x for x in results.values() if x['engine'] != 'verus' and set(x.get('fns') or []) & set(r.get('fns') or [])]
            rec['other_engines_on_same_function'] = dict(obligations=len(same), failing=[x['name'] for x in same if x['status'] == 'fail'][:10])
        sig = '%s|%s' % (oid, (r.get('failed') or [{}])[0].get('desc') if r['engine'] == 'kani' and r.get('failed') else oid)
        is_known = None
        for kf in known.get('findings', []):
            if kf.get('property') == prop and kf.get('obligation') == oid and (not kf.get('clause') or any(kf['clause'] in (f.get('desc') or '') for f in (r.get('failed') or []) if isinstance(f, dict))):
                is_known = kf
        json.dump(rec, open(rp, 'w'), indent=1)
        if is_known:
            out_lines.append('KNOWN-FINDING: property=%s %s' % (prop, is_known.get('what', oid)))
        else:
            n_viol += 1
            out_lines.append('VIOLATION property=%s replay=%s%s' % (prop, rp, suffix))
            what = (r.get('failed') or [''])[0]
            what = what.get('desc') if isinstance(what, dict) else str(what)[:300]
            out_lines.append('  obligation=%s failed: %s' % (oid, what))
            if rec.get('other_engines_on_same_function') is not None:
                oe = rec['other_engines_on_same_function']
                out_lines.append('  other engines on the same function: %d obligation(s), %d failing%s' % (
                    oe['obligations'], len(oe['failing']), '' if oe['failing'] or not oe['obligations'] else
                    ' (no executed contract is breached: the failed proof obligation is the only evidence)'))
    for oid in undecided:
        r = results[oid]
        out_lines.append('UNDECIDED property=%s obligation=%s reason=%s' % (prop, oid, (r.get('reason') or '')[:400].replace('\n', ' | ')))
    wall = time.time() - t0
    write_evidence(prop, tier, seed, results, key, wall, n_viol, undecided)
    for l in out_lines:
        print(l)
    n = len(results)
    npass = sum(1 for r in results.values() if r['status'] == 'pass')
    print('property=%s tier=%s obligations=%d discharged=%d violations=%d undecided=%d wall=%.1fs' % (prop, tier, n, npass, n_viol, len(undecided), wall))
    if n == 0:
        print('UNDECIDED property=%s reason=no obligations registered' % prop)
        return 2
    if n_viol:
        return 1
    # "soft" undecided: the deductive back end could not be APPLIED to the (changed) text -- lost
    # anchor, construct outside the dialect.  Never happens on the unchanged tree; the unit's
    # obligations are reported as not decided, the other engines' obligations still decide the check.
    hard = [o for o in undecided if not results[o].get('soft')]
    if hard:
        return 2
    if undecided:
        print('NOTE property=%s %d obligation group(s) could not be applied to this tree (see UNDECIDED lines); everything that could be explored held' % (prop, len(undecided)))
    return 0


def write_evidence(prop, tier, seed, results, key, wall, n_viol, undecided):
    by_label = {}
    for r in results.values():
        d = by_label.setdefault(r['label'], dict(obligations=0, discharged=0))
        d['obligations'] += 1
        d['discharged'] += 1 if r['status'] == 'pass' else 0
    # what the P obligations are: contracts on extracted real functions are the proved code; lemmas and the
    # bodies of prelude shims are supporting obligations (they are checked, but they are not code of /repo)
    p_kinds = {}
    for r in results.values():
        if r['label'] == 'P':
            k = r.get('kind') or 'other'
            d = p_kinds.setdefault(k, dict(obligations=0, discharged=0))
            d['obligations'] += 1
            d['discharged'] += 1 if r['status'] == 'pass' else 0
    fns = {}
    for r in results.values():
        for f in r.get('fns', []):
            e = fns.setdefault(f, dict(function=f, by=[]))
            tag = '%s/%s' % (r['engine'], r['label'])
            if tag not in e['by']:
                e['by'].append(tag)
            if r.get('source'):
                e['source'] = '%s:%d-%d sha256=%s' % (r['source']['file'], r['source']['lines'][0], r['source']['lines'][1], r['source']['sha256'][:16])
    samples = []
    for oid, r in sorted(results.items()):
        s = dict(id=oid, engine=r['engine'], label=r['label'], status=r['status'], what=r.get('desc'))
        if r['engine'] == 'kani':
            s.update(cbmc_properties=r.get('n_checks'), contract_clauses=r.get('named_samples'), solver_s=r.get('solver_s'),
                     symex_s=r.get('symex_s'), wall_s=r.get('duration_s'), bound=r.get('bound'), covers_satisfied=r.get('covers_sat'))
        elif r['engine'] == 'native':
            s.update(sampled_states_evaluated=r.get('evaluated'), discarded_by_precondition=r.get('discarded'), wall_s=r.get('duration_s'), cfg=r.get('cfg'))
        else:
            s.update(function=r.get('name'), kind=r.get('kind'), smt_ms=r.get('time_ms'), rlimit=r.get('rlimit'),
                     discharged_by=r.get('discharged_by'))
        if r.get('cached'):
            s['cached_result_for_identical_tree'] = True
        samples.append(s)
    assumptions = set()
    rewrite = {}
    vfiles = set()
    for r in results.values():
        ui = r.get('unit_info')
        if ui:
            for a in ui['assumptions']:
                assumptions.add(a)
            for k, v in ui['rewrite_hits'].items():
                rewrite[k] = max(rewrite.get(k, 0), v)
            vfiles.add(ui['file'])
    total_checks = sum(r.get('n_checks') or 0 for r in results.values() if r['engine'] == 'kani')
    n = len(results)
    npass = sum(1 for r in results.values() if r['status'] == 'pass')
    core = [r for r in results.values() if prop not in (r.get('supplementary_for') or [])]
    all_pc = all(r['label'] in ('P', 'C') for r in core) and len(core) > 0
    sampled = sum(r.get('evaluated') or 0 for r in results.values() if r['engine'] == 'native')
    level = 'proof' if all_pc else 'other'
    try:
        man = json.load(open(os.path.join(VERIF, 'MANIFEST.json')))
        claimed = [c['level_claimed']['category'] for c in man['checks'] if c['property_id'] == prop]
        if claimed:
            # the level is the one claimed in MANIFEST.json; a 'proof' claim is only honoured when
            # every non-supplementary obligation really is P or C
            level = claimed[0] if (claimed[0] != 'proof' or all_pc) else 'other'
    except Exception:
        pass
    bounds = sorted(set('%s: %s' % (r['name'], r['bound']) for r in results.values() if r.get('bound')))
    trusted = [
        'rustc MIR -> Kani 0.68 GOTO translation, CBMC 6.11 + CaDiCaL; Kani models of alloc/dealloc and x86 SIMD intrinsics',
        'Verus 0.2026.09.13 + Z3; dialect preludes (shim types, assumed std specs) listed under assumptions',
        'mechanical extraction rules R1-R42 (lib/extract.py, lib/vunits.py; table in DESIGN.md section 0); hit counts under rewrite_rule_hits',
        'usize is 64-bit; 32-bit targets not covered',
        'specification predicates in /verif/hook/*.rs and /verif/contracts/*.vspec say what the property says (reviewed by hand)',
    ]
    if all_pc:
        # proof level: only P and C obligations are counted; bounded ones are listed as supplementary
        n_counted = len(core)
        npass_counted = sum(1 for r in core if r['status'] == 'pass')
    else:
        n_counted, npass_counted = n, npass
    cov = dict(
        obligations=n_counted, discharged=npass_counted,
        supplementary_bounded_obligations=[k for k, r in sorted(results.items()) if prop in (r.get('supplementary_for') or [])],
        by_label=by_label,
        verus_obligations_by_kind=p_kinds,
        label_meaning=dict(P='proved: Verus, all inputs, unbounded', C='complete: CBMC over the full finite machine domain, loop-free or structurally bounded',
                           B='bounded-inductive: CBMC from every abstract state of a table with the stated bucket count; NOT counted as proved',
                           R='runtime: the same contracts evaluated natively on sampled abstract states (stand-in where CBMC symbolic execution does not terminate; the only engine that unwinds); NOT counted as proved'),
        checker_cmd='bin/check %s --tier %s  (verus <unit>.rs --output-json; cargo kani -Z function-contracts --exact --harness ...)' % (prop, tier),
        trusted_base=trusted,
        cbmc_properties_checked=total_checks,
        sampled_states_evaluated=sampled,
        functions_under_contract=sorted(fns.values(), key=lambda e: e['function']),
        bounds=bounds,
        rewrite_rule_hits=rewrite,
        generated_verus_files=sorted(vfiles),
        undecided=undecided,
        samples=samples,
        explanation=('Contract-based deductive verification: every obligation is a pre/postcondition (or invariant / lemma) on a real '
                     'function of /repo, discharged function by function. %d obligations: %s. Bounded (B) obligations are Hoare triples from an '
                     'arbitrary abstract state and are bounded in table size only; they are reported separately and never counted as proved.'
                     % (n, ', '.join('%s=%d/%d' % (k, v['discharged'], v['obligations']) for k, v in sorted(by_label.items())))),
        tree_key=key, repo=REPO,
        exhaustive=False,
    )
    ev = dict(property_id=prop, tier=tier, seed=int(seed), level=level, coverage=cov,
              assumptions=sorted(assumptions) + ['see coverage.trusted_base'], wall_s=round(wall, 2), violations=n_viol)
    evdir = os.path.join(VERIF, 'evidence') if REPO == '/repo' else os.path.join(BUILD, 'evidence-scratch')
    os.makedirs(evdir, exist_ok=True)
    json.dump(ev, open(os.path.join(evdir, '%s.json' % prop), 'w'), indent=1)


def replay_file(path):
    """Re-run a recorded counterexample natively against the current /repo."""
    rec = json.load(open(path))
    if rec.get('sample_seed') is not None:
        binp, err = build_replay_bin(rec['cfg'])
        p = subprocess.run([binp, '--one', rec['harness'], str(rec['sample_seed'])], capture_output=True, text=True)
        print((p.stdout + p.stderr).strip())
        return 1 if p.returncode != 0 else 0
    if 'concrete_vals' not in rec:
        ob = rec.get('obligation') or ''
        if ob.startswith('v:'):
            # a failed proof obligation without an input: re-generate the unit from the CURRENT tree and re-check it
            _, unit, w, fname = ob.split(':', 3)
            width = int(w[1:])
            try:
                vpath, _meta, _hits = vunits.generate(unit, width, os.path.join(BUILD, 'vx'))
                r = vunits.run_verus(vpath)
            except Exception as e:
                print('could not re-run unit %s: %s' % (unit, e))
                return 2
            f = (r.get('funcs') or {}).get(fname)
            if f is None:
                print('obligation %s is not produced by the current tree (%s)' % (ob, r.get('status')))
                return 2
            print('obligation %s on the current tree: %s' % (ob, 'DISCHARGED' if f['success'] else 'FAILS (reproduced)'))
            if not f['success']:
                print((r.get('stderr') or '')[-3000:])
            return 0 if f['success'] else 1
        print('replay file carries no concrete input (verifier output only):')
        print(json.dumps(rec.get('verifier_output') or rec.get('failed'), indent=1)[:3000])
        return 2
    nat = native_replay(rec['cfg'], rec['harness'], rec['concrete_vals'])
    print(json.dumps(nat, indent=1))
    return 1 if nat.get('reproduced') else 0
