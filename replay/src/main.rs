// Native driver for the obligations of /verif/hook against the real hashbrown code.
//   replay mode (stdin): line 1 = obligation name, each further line = bytes of one drawn value
//   sample mode: hb_replay --sample <name> <seed> <iters>
// exit 0: contract held; exit 1: contract breached (message printed); a panic / abort inside the
// real code is a breach as well (non-zero exit).
use std::io::Read;

fn main() {
    let args: Vec<String> = std::env::args().collect();
    if args.len() >= 5 && args[1] == "--sample" {
        let seed: u64 = args[3].parse().unwrap();
        let iters: u64 = args[4].parse().unwrap();
        match hashbrown::__verif::sample(&args[2], seed, iters) {
            None => {
                println!("unknown obligation {}", args[2]);
                std::process::exit(3);
            }
            Some((done, skipped, None)) => {
                println!("SAMPLED name={} evaluated={} discarded={} breaches=0", args[2], done, skipped);
            }
            Some((done, skipped, Some((it, sd, m)))) => {
                println!("SAMPLED name={} evaluated={} discarded={} breaches=1", args[2], done, skipped);
                println!("BREACH: {} (iteration {} sample-seed {})", m, it, sd);
                std::process::exit(1);
            }
        }
        return;
    }
    if args.len() >= 4 && args[1] == "--one" {
        let sd: u64 = args[3].parse().unwrap();
        match hashbrown::__verif::sample_one(&args[2], sd) {
            None => {
                println!("unknown obligation {}", args[2]);
                std::process::exit(3);
            }
            Some(Ok(())) => println!("contract held on sample-seed {}", sd),
            Some(Err(m)) => {
                println!("BREACH: {} (sample-seed {})", m, sd);
                std::process::exit(1);
            }
        }
        return;
    }
    if args.len() >= 2 && args[1] == "--list" {
        for h in hashbrown::__verif::HARNESSES {
            println!("{}", h);
        }
        return;
    }
    let mut inp = String::new();
    std::io::stdin().read_to_string(&mut inp).unwrap();
    let mut lines = inp.lines();
    let name = lines.next().unwrap_or("").trim().to_string();
    let vals: Vec<Vec<u8>> = lines
        .map(|l| l.split_whitespace().map(|x| x.parse::<u8>().unwrap()).collect())
        .collect();
    match hashbrown::__verif::replay(&name, vals) {
        None => {
            println!("unknown obligation {}", name);
            std::process::exit(3);
        }
        Some((r, assume_failed, underrun)) => {
            if underrun {
                println!("note: fewer recorded values than draws (missing values read as 0)");
            }
            match r {
                Ok(()) if assume_failed => {
                    println!("precondition not met by the recorded input");
                    std::process::exit(0);
                }
                Ok(()) => {
                    println!("contract held on the recorded input");
                    std::process::exit(0);
                }
                Err(m) => {
                    println!("BREACH: {}", m);
                    std::process::exit(1);
                }
            }
        }
    }
}
