// Reproduction of the rehash_in_place scope-guard defect (safe API only).
// Exit code 0: len() == number of elements yielded (property holds).
// Exit code 1: len() != #FULL control bytes after a hasher panic (property C04/C02 violated).
use hashbrown::HashTable;
use std::cell::Cell;
use std::panic::{catch_unwind, AssertUnwindSafe};

fn main() {
    std::panic::set_hook(Box::new(|_| {}));
    let mut t: HashTable<u64> = HashTable::with_capacity(28);
    let cap = t.capacity();
    let h = |v: &u64| *v;
    for i in 0..cap as u64 {
        let v = (i << 57) | i;
        t.insert_unique(h(&v), v, h);
    }
    // remove all but 4: tombstones, so reserve(8) picks the in-place rehash
    for i in 4..cap as u64 {
        let v = (i << 57) | i;
        t.find_entry(h(&v), |x| *x == v).unwrap().remove();
    }
    let calls = Cell::new(0u32);
    let r = catch_unwind(AssertUnwindSafe(|| {
        t.reserve(8, |v| {
            calls.set(calls.get() + 1);
            if calls.get() == 2 {
                panic!("hasher panic");
            }
            *v
        });
    }));
    assert!(r.is_err(), "hasher did not panic: in-place rehash was not chosen");
    let len = t.len();
    // count yielded elements without trusting len(): a bounded walk
    let r = catch_unwind(AssertUnwindSafe(|| t.iter().count()));
    match r {
        Ok(n) if n == len => {
            println!("OK len={} yielded={}", len, n);
        }
        Ok(n) => {
            println!("BROKEN len={} yielded={}", len, n);
            std::process::exit(1);
        }
        Err(_) => {
            println!("BROKEN len={} iteration panicked (walked past the control bytes)", len);
            std::process::exit(1);
        }
    }
}
