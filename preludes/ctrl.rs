// Dialect prelude for unit `ctrl` (hand-written, trusted; every assumption is listed in evidence).
// The control-byte array is modelled as Vec<u8> of length buckets + WIDTH (rule R5/R6); element
// storage is not modelled here (B / R tiers).  Group / BitMask are abstract with the bytewise
// contracts that CBMC proves complete on the real SSE2 and portable code (h_group, h_bitmask).
global size_of usize == 8;

#[derive(Clone, Copy, PartialEq, Eq, Structural)]
pub struct Tag(pub u8);
impl Tag {
    pub const EMPTY: Tag = Tag(0xFF);
    pub const DELETED: Tag = Tag(0x80);
}

pub struct ProbeSeq {
    pub pos: usize,
    pub stride: usize,
}

pub struct InsertSlot {
    pub index: usize,
}

pub struct RawTableInner {
    pub bucket_mask: usize,
    pub ctrl: Vec<u8>,
    pub growth_left: usize,
    pub items: usize,
    /// ghost view of the element storage: the identity of the element held by each bucket (used by unit
    /// rehash; control-byte operations leave it alone)
    pub elems: Ghost<Seq<int>>,
    /// ghost log of the buckets whose element has been dropped in place, in order (used by unit guard)
    pub drop_log: Ghost<Seq<int>>,
}

pub open spec fn spec_is_pow2(x: usize) -> bool {
    x != 0 && (x & sub(x, 1)) == 0
}
pub open spec fn spec_cap_of(mask: usize) -> int {
    if mask < 8 { mask as int } else { ((mask as int + 1) / 8) * 7 }
}
pub open spec fn valid_byte(b: u8) -> bool {
    b < 0x80 || b == 0xFF || b == 0x80
}
pub open spec fn spec_tag(hash: u64) -> u8 {
    (hash >> 57) as u8
}

// std: usize::from(bool); discharged against real std by the CBMC obligation h_std_specs
pub assume_specification[ <usize as core::convert::From<bool>>::from ](b: bool) -> (r: usize)
    ensures r == (if b { 1usize } else { 0usize }),
;

#[derive(Clone, Copy)]
pub struct BitMask {
    pub lanes: Ghost<Seq<bool>>,
    pub lz: usize,
    pub tz: usize,
}
#[derive(Clone, Copy)]
pub struct Group {
    pub bytes: Ghost<Seq<u8>>,
    pub m_empty_lz: usize,
    pub m_empty_tz: usize,
}
impl Group {
    pub const WIDTH: usize = @WIDTH@;

    // contract proved complete by CBMC obligation h_group on the real scanner
    #[verifier::external_body]
    pub fn match_empty_or_deleted(&self) -> (r: BitMask)
        requires self.bytes@.len() == Group::WIDTH,
        ensures
            r.lanes@.len() == Group::WIDTH,
            forall|k: int| #![trigger r.lanes@[k]] #![trigger self.bytes@[k]] 0 <= k < Group::WIDTH ==> r.lanes@[k] == (self.bytes@[k] >= 0x80u8),
    {
        unimplemented!()
    }
    // contract proved complete by CBMC obligation h_group on the real scanners
    #[verifier::external_body]
    pub fn convert_special_to_empty_and_full_to_deleted(self) -> (r: Group)
        requires self.bytes@.len() == Group::WIDTH,
        ensures
            r.bytes@.len() == Group::WIDTH,
            forall|k: int| 0 <= k < Group::WIDTH ==> #[trigger] r.bytes@[k] == (if self.bytes@[k] < 0x80u8 { 0x80u8 } else { 0xFFu8 }),
    {
        unimplemented!()
    }
    #[verifier::external_body]
    pub fn match_empty(self) -> (r: BitMask)
        requires self.bytes@.len() == Group::WIDTH,
        ensures
            r.lanes@.len() == Group::WIDTH,
            forall|k: int| #![trigger r.lanes@[k]] #![trigger self.bytes@[k]] 0 <= k < Group::WIDTH ==> r.lanes@[k] == (self.bytes@[k] == 0xFFu8),
    {
        unimplemented!()
    }
}
pub open spec fn spec_tz(l: Seq<bool>) -> int
    decreases l.len(),
{
    if l.len() == 0 || l[0] { 0 } else { 1 + spec_tz(l.subrange(1, l.len() as int)) }
}
pub open spec fn spec_lz(l: Seq<bool>) -> int
    decreases l.len(),
{
    if l.len() == 0 || l[l.len() - 1] { 0 } else { 1 + spec_lz(l.subrange(0, l.len() - 1)) }
}
impl BitMask {
    // contracts proved complete by CBMC obligation h_bitmask on the real BitMask (both lane encodings)
    #[verifier::external_body]
    pub fn leading_zeros(self) -> (r: usize)
        ensures r as int == spec_lz(self.lanes@), r <= self.lanes@.len(),
    {
        unimplemented!()
    }
    #[verifier::external_body]
    pub fn lowest_set_bit(self) -> (r: Option<usize>)
        ensures
            r is None ==> forall|k: int| 0 <= k < self.lanes@.len() ==> !self.lanes@[k],
            r matches Some(b) ==> b < self.lanes@.len() && self.lanes@[b as int] && forall|k: int| 0 <= k < b ==> !self.lanes@[k],
    {
        unimplemented!()
    }
    #[verifier::external_body]
    pub fn trailing_zeros(self) -> (r: usize)
        ensures r as int == spec_tz(self.lanes@), r <= self.lanes@.len(),
    {
        unimplemented!()
    }
}

impl RawTableInner {
    pub open spec fn nb(&self) -> int {
        self.bucket_mask as int + 1
    }

    /// allocated table: power-of-two bucket count >= 4, control array of nb + WIDTH valid bytes
    pub open spec fn shape(&self) -> bool {
        &&& self.bucket_mask >= 3
        &&& self.bucket_mask < 0x4000_0000_0000_0000
        &&& spec_is_pow2((self.bucket_mask + 1) as usize)
        &&& self.ctrl@.len() == self.nb() + Group::WIDTH
        &&& forall|j: int| 0 <= j < self.ctrl@.len() ==> valid_byte(#[trigger] self.ctrl@[j])
    }
    /// the mirrored tail / padding rule of the control array
    pub open spec fn mirrored(&self) -> bool {
        if self.nb() >= Group::WIDTH {
            forall|j: int| 0 <= j < Group::WIDTH ==> #[trigger] self.ctrl@[self.nb() + j] == self.ctrl@[j]
        } else {
            &&& forall|j: int| self.nb() <= j < Group::WIDTH ==> #[trigger] self.ctrl@[j] == 0xFFu8
            &&& forall|j: int| 0 <= j < self.nb() ==> #[trigger] self.ctrl@[Group::WIDTH + j] == self.ctrl@[j]
        }
    }
    /// k-th byte of the window starting at position `pos` of the control array
    pub open spec fn win(&self, pos: int, k: int) -> u8 {
        self.ctrl@[pos + k]
    }
    /// index of the mirror byte of bucket `index`
    pub open spec fn mirror_index(&self, index: int) -> int {
        if self.nb() >= Group::WIDTH {
            if index < Group::WIDTH { self.nb() + index } else { index }
        } else {
            Group::WIDTH + index
        }
    }

    // ---- shims for R5 / R6: every control-byte access is an in-bounds obligation ----
    pub fn ctrl_get(&self, i: usize) -> (r: Tag)
        requires i < self.ctrl@.len(),
        ensures r.0 == self.ctrl@[i as int],
    {
        Tag(self.ctrl[i])
    }
    pub fn ctrl_set(&mut self, i: usize, t: Tag)
        requires i < old(self).ctrl@.len(),
        ensures
            final(self).ctrl@ == old(self).ctrl@.update(i as int, t.0),
            final(self).bucket_mask == old(self).bucket_mask,
            final(self).growth_left == old(self).growth_left,
            final(self).items == old(self).items,
            final(self).elems == old(self).elems,
            final(self).drop_log == old(self).drop_log,
    {
        self.ctrl.set(i, t.0);
    }
    #[verifier::external_body]
    pub fn group_load(&self, i: usize) -> (g: Group)
        requires i + Group::WIDTH <= self.ctrl@.len(),
        ensures g.bytes@ == self.ctrl@.subrange(i as int, i + Group::WIDTH),
    {
        unimplemented!()
    }
    // Group::store_aligned through a control pointer: WIDTH bytes written, in bounds and aligned are obligations
    #[verifier::external_body]
    pub fn group_store_aligned(&mut self, i: usize, g: Group)
        requires i + Group::WIDTH <= old(self).ctrl@.len(), i % Group::WIDTH == 0, g.bytes@.len() == Group::WIDTH,
        ensures
            final(self).ctrl@.len() == old(self).ctrl@.len(),
            forall|k: int| 0 <= k < old(self).ctrl@.len() ==>
                #[trigger] final(self).ctrl@[k] == (if i <= k < i + Group::WIDTH { g.bytes@[k - i] } else { old(self).ctrl@[k] }),
            final(self).bucket_mask == old(self).bucket_mask,
            final(self).growth_left == old(self).growth_left,
            final(self).items == old(self).items,
            final(self).elems == old(self).elems,
            final(self).drop_log == old(self).drop_log,
    {
        unimplemented!()
    }
    // TagSliceExt::fill_empty on the whole control slice (ptr::write_bytes over num_ctrl_bytes bytes)
    #[verifier::external_body]
    pub fn ctrl_fill_empty(&mut self)
        ensures
            final(self).ctrl@.len() == old(self).ctrl@.len(),
            forall|k: int| 0 <= k < old(self).ctrl@.len() ==> #[trigger] final(self).ctrl@[k] == 0xFFu8,
            final(self).bucket_mask == old(self).bucket_mask,
            final(self).growth_left == old(self).growth_left,
            final(self).items == old(self).items,
            final(self).elems == old(self).elems,
            final(self).drop_log == old(self).drop_log,
    {
        unimplemented!()
    }
    // ptr::copy between two control pointers (memmove semantics: the source is read before anything is written)
    #[verifier::external_body]
    pub fn ctrl_copy(&mut self, src: usize, dst: usize, count: usize)
        requires src + count <= old(self).ctrl@.len(), dst + count <= old(self).ctrl@.len(),
        ensures
            final(self).ctrl@.len() == old(self).ctrl@.len(),
            forall|k: int| 0 <= k < old(self).ctrl@.len() ==>
                #[trigger] final(self).ctrl@[k] == (if dst <= k < dst + count { old(self).ctrl@[src + k - dst] } else { old(self).ctrl@[k] }),
            final(self).bucket_mask == old(self).bucket_mask,
            final(self).growth_left == old(self).growth_left,
            final(self).items == old(self).items,
            final(self).elems == old(self).elems,
            final(self).drop_log == old(self).drop_log,
    {
        unimplemented!()
    }
    #[verifier::external_body]
    pub fn group_load_aligned(&self, i: usize) -> (g: Group)
        requires i + Group::WIDTH <= self.ctrl@.len(), i % Group::WIDTH == 0,
        ensures g.bytes@ == self.ctrl@.subrange(i as int, i + Group::WIDTH),
    {
        unimplemented!()
    }
}

// core::option::Option::unwrap_unchecked: its safety precondition becomes a proof obligation
pub assume_specification<T>[ Option::<T>::unwrap_unchecked ](o: Option<T>) -> (r: T)
    requires o is Some,
    ensures Some(r) == o,
;

// ---- iteration over a BitMask and the dyn equality callback (rules R7 / R8) ----
// contracts of BitMaskIter::next / into_iter / any_bit_set / match_tag: proved complete by the CBMC
// obligations h_bitmask and h_group; EqDyn: a deterministic callback is a function of its argument
pub struct BitMaskIter { pub lanes: Ghost<Seq<bool>>, pub pos: Ghost<int> }
impl BitMaskIter {
    #[verifier::external_body]
    pub fn next(&mut self) -> (r: Option<usize>)
        requires 0 <= old(self).pos@ <= old(self).lanes@.len(),
        ensures
            final(self).lanes@ == old(self).lanes@,
            r matches Some(b) ==> old(self).pos@ <= b < old(self).lanes@.len() && old(self).lanes@[b as int] && final(self).pos@ == b + 1
                && (forall|k: int| old(self).pos@ <= k < b ==> !old(self).lanes@[k]),
            r is None ==> (forall|k: int| old(self).pos@ <= k < old(self).lanes@.len() ==> !old(self).lanes@[k]) && final(self).pos@ == old(self).lanes@.len(),
    { unimplemented!() }
}
impl BitMask {
    #[verifier::external_body]
    pub fn into_iter(self) -> (r: BitMaskIter)
        ensures r.lanes@ == self.lanes@, r.pos@ == 0,
    { unimplemented!() }
    #[verifier::external_body]
    pub fn any_bit_set(self) -> (r: bool)
        ensures r == (exists|k: int| 0 <= k < self.lanes@.len() && self.lanes@[k]),
    { unimplemented!() }
}
impl Group {
    #[verifier::external_body]
    pub fn match_tag(self, tag: Tag) -> (r: BitMask)
        requires self.bytes@.len() == Group::WIDTH, tag.0 < 0x80,
        ensures
            r.lanes@.len() == Group::WIDTH,
            forall|k: int| #![trigger r.lanes@[k]] #![trigger self.bytes@[k]] 0 <= k < Group::WIDTH ==> {
                &&& (self.bytes@[k] == tag.0 ==> r.lanes@[k])
                &&& (r.lanes@[k] ==> self.bytes@[k] < 0x80u8)
            },
    { unimplemented!() }
}
pub struct EqDyn { pub f: Ghost<spec_fn(usize) -> bool> }
impl EqDyn {
    #[verifier::external_body]
    pub fn call(&mut self, i: usize) -> (r: bool)
        ensures r == (old(self).f@)(i), final(self).f@ == old(self).f@,
    { unimplemented!() }
}


impl RawTableInner {
/// no bucket of window j (of the probe sequence from `start`) with the wanted tag is accepted by eq
pub open spec fn window_rejects(&self, start: int, j: nat, tag: u8, f: spec_fn(usize) -> bool) -> bool {
    forall|t: int| 0 <= t < Group::WIDTH ==>
        (#[trigger] self.win(spec_pos(start, self.nb(), j), t) == tag ==> !f(((spec_pos(start, self.nb(), j) + t) % self.nb()) as usize))
}

/// what a `None` answer of find_inner certifies: windows 0..=kk were probed, every bucket in them
/// carrying the tag was rejected by eq, and window kk holds an EMPTY byte (the probe may stop)
pub open spec fn none_witness(&self, start: int, kk: nat, tag: u8, f: spec_fn(usize) -> bool) -> bool {
    &&& (forall|j: nat| j <= kk ==> #[trigger] self.window_rejects(start, j, tag, f))
    &&& (exists|t: int| 0 <= t < Group::WIDTH && #[trigger] self.win(spec_pos(start, self.nb(), kk), t) == 0xFFu8)
}

/// a remembered insert slot is a bucket in range (EMPTY/DELETED for tables of at least one group)
pub open spec fn slot_ok(&self, s: Option<usize>) -> bool {
    s matches Some(i) ==> i <= self.bucket_mask && (self.nb() >= Group::WIDTH ==> self.ctrl@[i as int] >= 0x80u8)
}
/// F2 for bucket i and hash h: some probe window k contains bucket i and no earlier window holds an EMPTY byte
pub open spec fn reach(&self, i: int, h: u64) -> bool {
    exists|k: nat| #[trigger] self.reach_at(i, h, k)
}
pub open spec fn reach_at(&self, i: int, h: u64, k: nat) -> bool {
    let n = self.nb();
    let start = h as usize as int;
    &&& (n >= Group::WIDTH ==> (k as int) < n / (Group::WIDTH as int))
    &&& (n < Group::WIDTH ==> k == 0)
    &&& 0 <= (i - spec_pos(start, n, k)) % n < Group::WIDTH
    &&& forall|j: nat, t: int| j < k && 0 <= t < Group::WIDTH ==> #[trigger] self.win(spec_pos(start, n, j), t) != 0xFFu8
}
/// what erase's tombstone rule certifies when it writes EMPTY: an EMPTY byte lz + 1 buckets before
/// `index` and another tz buckets after it, with lz + tz < WIDTH -- every probe window that contains
/// `index` already contains one of the two
pub open spec fn gap_witness(&self, index: int, lz: int, tz: int) -> bool {
    &&& 0 <= lz && 1 <= tz && lz + tz < Group::WIDTH
    &&& self.ctrl@[(index - lz - 1) % self.nb()] == 0xFFu8
    &&& self.ctrl@[(index + tz) % self.nb()] == 0xFFu8
}
/// F2 for the whole table, `hs` being the hash each FULL bucket's element was stored under
pub open spec fn f2(&self, hs: Map<int, u64>) -> bool {
    forall|i: int| 0 <= i < self.nb() && #[trigger] self.ctrl@[i] < 0x80u8 ==>
        hs.dom().contains(i) && self.ctrl@[i] == spec_tag(hs[i]) && self.reach(i, hs[i])
}
    /// strong reachability: bucket i lies in probe window k of hash h and every earlier window is entirely FULL
    pub open spec fn sreach_at(&self, i: int, h: u64, k: nat) -> bool {
        let n = self.nb();
        let start = h as usize as int;
        &&& (n >= Group::WIDTH ==> (k as int) < n / (Group::WIDTH as int))
        &&& (n < Group::WIDTH ==> k == 0)
        &&& 0 <= (i - spec_pos(start, n, k)) % n < Group::WIDTH
        &&& forall|j: nat, t: int| j < k && 0 <= t < Group::WIDTH ==> #[trigger] self.win(spec_pos(start, n, j), t) < 0x80u8
    }
    pub open spec fn sreach(&self, i: int, h: u64) -> bool {
        exists|k: nat| #[trigger] self.sreach_at(i, h, k)
    }
}
