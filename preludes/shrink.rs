// Additional prelude for unit `shrink` (on top of preludes/arith.rs).
pub trait Allocator {}
pub struct AllocShim;
#[derive(Clone, Copy)]
pub enum Fallibility {
    Fallible,
    Infallible,
}
pub enum TryReserveError {
    CapacityOverflow,
    AllocError,
}
pub mod hint {
    use super::*;
    #[verifier::external_body]
    pub fn unreachable_unchecked() -> !
        requires false,
    {
        unimplemented!()
    }
}
// std: core::mem::replace (assumed with its documented meaning)
pub assume_specification<T>[ core::mem::replace::<T> ](dest: &mut T, src: T) -> (r: T)
    ensures *final(dest) == src, r == *old(dest);

/// `b` is what capacity_to_buckets returns for `want` (its proved Some-postcondition)
pub open spec fn admissible_min(b: usize, want: usize, size: usize) -> bool {
    &&& spec_is_pow2(b)
    &&& b >= 4
    &&& want as int <= spec_cap_of((b - 1) as usize)
    &&& spec_cap_of((b - 1) as usize) < b as int
    &&& (b >= 16 || (b == 8 && 8 * spec_elt(size) >= Group::WIDTH as int) || (b == 4 && 4 * spec_elt(size) >= Group::WIDTH as int))
    &&& (b == 4 || spec_cap_of((b / 2 - 1) as usize) < want as int
         || (b == 8 && 4 * spec_elt(size) < Group::WIDTH as int)
         || (b == 16 && 8 * spec_elt(size) < Group::WIDTH as int))
}

pub struct RawTableInner {
    pub bucket_mask: usize,
    pub growth_left: usize,
    pub items: usize,
}
impl RawTableInner {
    pub const NEW: RawTableInner = RawTableInner { bucket_mask: 0, growth_left: 0, items: 0 };

    pub open spec fn counts_ok(&self) -> bool {
        &&& self.bucket_mask < usize::MAX
        &&& self.items as int + self.growth_left as int <= spec_cap_of(self.bucket_mask)
    }
    /// an allocated table has a power-of-two bucket count >= 4; the singleton has one (virtual) bucket
    pub open spec fn sized_ok(&self) -> bool {
        self.bucket_mask == 0 || (self.bucket_mask >= 3 && spec_is_pow2((self.bucket_mask + 1) as usize))
    }

    // drops the elements and frees the block (R: r_life)
    #[verifier::external_body]
    pub fn drop_inner_table<T, A>(&mut self, alloc: &A, table_layout: TableLayout) {
        unimplemented!()
    }
    // contract proved in unit grow (infallible construction) + allocation path evaluated natively:
    // an empty table whose bucket count is capacity_to_buckets(capacity)
    #[verifier::external_body]
    pub fn with_capacity<A>(alloc: &A, table_layout: TableLayout, capacity: usize) -> (r: RawTableInner)
        requires capacity > 0,
        ensures
            r.counts_ok(), r.sized_ok(), r.items == 0,
            admissible_min((r.bucket_mask + 1) as usize, capacity, table_layout.size),
    {
        unimplemented!()
    }
}
pub struct RawTable<T> {
    pub table: RawTableInner,
    pub alloc: AllocShim,
    pub marker: Ghost<Option<T>>,
}
impl<T> RawTable<T> {
    // R14: TABLE_LAYOUT of an arbitrary (but fixed) element type
    pub uninterp spec fn spec_layout() -> TableLayout;
    #[verifier::external_body]
    pub fn table_layout() -> (r: TableLayout)
        ensures r == Self::spec_layout(),
    {
        unimplemented!()
    }
    // RawTable::capacity / len: plain field arithmetic (not used by the unchanged shrink_to; present so that a
    // changed text that consults them stays inside the dialect and is decided rather than left undecided)
    pub fn capacity(&self) -> (r: usize)
        requires self.table.counts_ok(),
        ensures r == self.table.items + self.table.growth_left,
    {
        self.table.items + self.table.growth_left
    }
    pub fn len(&self) -> (r: usize)
        ensures r == self.table.items,
    {
        self.table.items
    }
    // contract of resize (R: r_resize): every element moved into a table of capacity_to_buckets(capacity) buckets
    #[verifier::external_body]
    pub fn resize<H>(&mut self, capacity: usize, hasher: H, fallibility: Fallibility) -> (r: Result<(), TryReserveError>)
        requires old(self).table.counts_ok(), old(self).table.items <= capacity, capacity > 0,
        ensures
            r is Err ==> fallibility is Fallible,
            r is Ok ==> {
                &&& final(self).table.counts_ok() && final(self).table.sized_ok()
                &&& final(self).table.items == old(self).table.items
                &&& admissible_min((final(self).table.bucket_mask + 1) as usize, capacity, Self::spec_layout().size)
            },
    {
        unimplemented!()
    }
}

pub open spec fn spec_umax(a: usize, b: usize) -> usize {
    if a > b { a } else { b }
}
