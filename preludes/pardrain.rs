// Additional prelude for unit `pardrain` (on top of preludes/iter.rs): rayon's ParDrainProducer.
// rayon's Folder is an arbitrary consumer that logs the buckets whose elements it is given and may report `full`
// at any time; the producer logs the buckets it drops.  Rust drops a by-value `self` at every `return` that is not
// preceded by `mem::forget(self)`: rule R35 writes that call to the (extracted) Drop::drop out, and `self` is taken
// by mutable reference so that the postcondition can name what was dropped.
pub trait Folder<T>: Sized {
    spec fn log(&self) -> Seq<int>;
    // R34: `folder.consume(item.read())`: the element of bucket `b` is moved out and handed to the consumer
    fn consume_bucket(self, b: &Bucket<T>) -> (r: Self)
        ensures r.log() == self.log().push(b.ptr as int);
    fn full(&self) -> bool;
}
pub struct ParDrainProducer<T> {
    pub iter: RawIterRange<T>,
    pub drop_log: Ghost<Seq<int>>,
    pub forgotten: Ghost<bool>,
}
impl<T> ParDrainProducer<T> {
    // R36: the struct literal `ParDrainProducer { iter: X }`
    pub fn from_iter(iter: RawIterRange<T>) -> (r: ParDrainProducer<T>)
        ensures r.iter == iter, r.drop_log@ == Seq::<int>::empty(), !r.forgotten@,
    { ParDrainProducer { iter, drop_log: Ghost(Seq::empty()), forgotten: Ghost(false) } }
    // R21: Bucket::drop of an element pulled from the range
    #[verifier::external_body]
    pub fn drop_bucket(&mut self, b: &Bucket<T>)
        requires is_full(b.ptr as int), b.ptr < mem_nb(),
        ensures final(self).iter == old(self).iter, final(self).forgotten == old(self).forgotten,
            final(self).drop_log@ == old(self).drop_log@.push(b.ptr as int),
    { unimplemented!() }
}
impl<T> RawIterRange<T> {
    // Clone for RawIterRange (field-wise copy)
    #[verifier::external_body]
    pub fn clone(&self) -> (r: RawIterRange<T>)
        ensures r == *self,
    { unimplemented!() }
}
// mem::forget of a producer: its Drop will not run
pub fn forget_producer_ref<T>(p: &mut ParDrainProducer<T>)
    ensures final(p).iter == old(p).iter, final(p).drop_log == old(p).drop_log, final(p).forgotten@,
{
    p.forgotten = Ghost(true);
}
pub fn forget_producer<T>(p: ParDrainProducer<T>) { }
