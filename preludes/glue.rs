// Additional prelude for unit `glue`: RawTable wrapper and the CONTRACTS of the callees
// (find_insert_slot, record_item_insert_at: proved in unit ctrl; reserve: unit grow + r_reserve).
pub struct Bucket<T> {
    pub index: Ghost<int>,
    pub marker: Ghost<Option<T>>,
}
impl<T> Bucket<T> {
    // element storage is not modelled in the Verus dialect (B / R tiers check the element write)
    #[verifier::external_body]
    pub fn write(&self, val: T) {
        unimplemented!()
    }
}
pub struct RawTable<T> {
    pub table: RawTableInner,
    pub marker: Ghost<Option<T>>,
    /// R21: the buckets whose element has been dropped in place, in order
    pub drop_log: Ghost<Seq<int>>,
}
pub uninterp spec fn spec_needs_drop<T>() -> bool;
#[verifier::external_body]
pub fn needs_drop<T>() -> (r: bool)
    ensures r == spec_needs_drop::<T>(),
{ unimplemented!() }
/// the FULL buckets below hi, ascending
pub open spec fn full_upto(c: Seq<u8>, hi: int) -> Seq<int>
    decreases hi,
{
    if hi <= 0 { Seq::empty() } else if c[hi - 1] < 0x80u8 { full_upto(c, hi - 1).push(hi - 1) } else { full_upto(c, hi - 1) }
}

impl RawTableInner {
    /// quiescent-state invariant as far as the control bytes and counters go: shape, mirror rule,
    /// and the two consequences of the load-factor accounting F1 that the probe loops rely on
    pub open spec fn inv(&self) -> bool {
        &&& self.shape()
        &&& self.mirrored()
        &&& self.items < usize::MAX
        &&& (exists|i: int| 0 <= i < self.nb() && self.ctrl@[i] >= 0x80u8)
    }

    // contract proved in unit `ctrl` on the extracted text of find_insert_slot
    #[verifier::external_body]
    pub fn find_insert_slot(&self, hash: u64) -> (r: InsertSlot)
        requires self.inv(),
        ensures r.index < self.nb(), self.ctrl@[r.index as int] >= 0x80u8,
    {
        unimplemented!()
    }

    // contract proved in unit `ctrl` on the extracted text of record_item_insert_at
    #[verifier::external_body]
    pub fn record_item_insert_at(&mut self, index: usize, old_ctrl: Tag, hash: u64)
        requires
            old(self).shape(), index < old(self).nb(),
            old_ctrl.0 == 0xFF || old_ctrl.0 == 0x80,
            old_ctrl.0 == 0xFF ==> old(self).growth_left > 0,
            old(self).items < usize::MAX,
        ensures
            final(self).shape(),
            final(self).bucket_mask == old(self).bucket_mask,
            final(self).items == old(self).items + 1,
            final(self).growth_left == old(self).growth_left - (if old_ctrl.0 == 0xFF { 1int } else { 0int }),
            final(self).ctrl@ == old(self).ctrl@.update(index as int, spec_tag(hash)).update(old(self).mirror_index(index as int), spec_tag(hash)),
            old(self).mirrored() ==> final(self).mirrored(),
    {
        unimplemented!()
    }
}

impl<T> RawTable<T> {
    // contract of reserve: unit `grow` (decision) + r_reserve / r_rehash_in_place / r_resize (contents);
    // the table afterwards is SOME table satisfying the invariant with room for `additional`: its
    // control bytes (hence any previously found slot) are not those of the old table
    #[verifier::external_body]
    pub fn reserve<H>(&mut self, additional: usize, hasher: H)
        requires old(self).table.inv() || old(self).table.bucket_mask == 0,
        ensures
            final(self).table.inv(),
            final(self).table.growth_left >= additional,
            final(self).table.items == old(self).table.items,
    {
        unimplemented!()
    }

    #[verifier::external_body]
    pub fn bucket(&self, index: usize) -> (r: Bucket<T>)
        requires index < self.table.nb(),
        ensures r.index@ == index,
    {
        unimplemented!()
    }
    // contract of RawTable::find = find_inner's soundness clause proved in unit ctrl: only a FULL bucket of this
    // table is returned (which one, and when None, is the business of units ctrl / assoc)
    #[verifier::external_body]
    pub fn find(&self, hash: u64, eq: EqT) -> (r: Option<Bucket<T>>)
        requires self.table.shape(), self.table.mirrored(),
        ensures r matches Some(b) ==> 0 <= b.index@ < self.table.nb() && self.table.ctrl@[b.index@] < 0x80u8,
    {
        unimplemented!()
    }
    // R19d: Bucket::as_ref on a bucket of this table: a reference to its element; the bucket must be FULL
    #[verifier::external_body]
    pub fn elem_ref<'a>(&'a self, bucket: &Bucket<T>) -> (r: &'a T)
        requires 0 <= bucket.index@ < self.table.nb(), self.table.ctrl@[bucket.index@] < 0x80u8,
    {
        unimplemented!()
    }
    // RawTable::bucket_index: pointer difference; the bucket must be one of this table's
    #[verifier::external_body]
    pub fn bucket_index(&self, bucket: &Bucket<T>) -> (r: usize)
        requires 0 <= bucket.index@ < self.table.nb(),
        ensures r as int == bucket.index@,
    {
        unimplemented!()
    }
    // Bucket::drop on the bucket with this index: it must hold a live element
    #[verifier::external_body]
    pub fn drop_bucket_at(&mut self, index: usize)
        requires index < old(self).table.nb(), old(self).table.ctrl@[index as int] < 0x80u8,
        ensures final(self).table == old(self).table, final(self).drop_log@ == old(self).drop_log@.push(index as int),
    { unimplemented!() }
    pub open spec fn spec_is_bucket_full(&self, index: usize) -> bool { self.table.ctrl@[index as int] < 0x80u8 }
    #[verifier::when_used_as_spec(spec_is_bucket_full)]
    pub fn is_bucket_full(&self, index: usize) -> (r: bool)
        requires self.table.shape(), index < self.table.nb(),
        ensures r == (self.table.ctrl@[index as int] < 0x80u8), r == self.spec_is_bucket_full(index),
    {
        self.table.ctrl_get(index).0 < 0x80
    }
}
pub struct EqT { pub g: Ghost<int> }
impl<T> Bucket<T> {
    // Bucket::read / Bucket::drop: the element itself is not modelled in this unit (R: drop ledger)
    #[verifier::external_body]
    pub fn read(&self) -> (r: T) { unimplemented!() }
    #[verifier::external_body]
    pub fn drop(&self) { unimplemented!() }
}
impl RawTableInner {
    // contract proved in unit `ctrl` on the extracted text of prepare_insert_slot
    #[verifier::external_body]
    pub fn prepare_insert_slot(&mut self, hash: u64) -> (r: (usize, Tag))
        requires
            old(self).shape(), old(self).mirrored(),
            exists|i: int| 0 <= i < old(self).nb() && old(self).ctrl@[i] >= 0x80u8,
        ensures
            final(self).shape(), final(self).mirrored(),
            final(self).bucket_mask == old(self).bucket_mask,
            final(self).items == old(self).items,
            final(self).growth_left == old(self).growth_left,
            r.0 < old(self).nb(),
            r.1.0 == old(self).ctrl@[r.0 as int], r.1.0 >= 0x80u8,
            final(self).ctrl@ == old(self).ctrl@.update(r.0 as int, spec_tag(hash)).update(old(self).mirror_index(r.0 as int), spec_tag(hash)),
    {
        unimplemented!()
    }
    #[verifier::external_body]
    pub fn bucket<T>(&self, index: usize) -> (r: Bucket<T>)
        requires index < self.nb(),
        ensures r.index@ == index,
    {
        unimplemented!()
    }
    // contract proved in unit `ctrl` on the extracted text of erase
    #[verifier::external_body]
    pub fn erase(&mut self, index: usize)
        requires
            old(self).shape(), old(self).mirrored(), index < old(self).nb(),
            old(self).ctrl@[index as int] < 0x80,
            old(self).items > 0,
            old(self).growth_left < usize::MAX,
        ensures
            final(self).shape(), final(self).mirrored(),
            final(self).bucket_mask == old(self).bucket_mask,
            final(self).items == old(self).items - 1,
            final(self).ctrl@[index as int] == 0xFFu8 || final(self).ctrl@[index as int] == 0x80u8,
            final(self).growth_left == old(self).growth_left + (if final(self).ctrl@[index as int] == 0xFFu8 { 1int } else { 0int }),
            final(self).ctrl@ == old(self).ctrl@.update(index as int, final(self).ctrl@[index as int]).update(old(self).mirror_index(index as int), final(self).ctrl@[index as int]),
    {
        unimplemented!()
    }
    // contract proved in unit `ctrl` on the extracted text of set_ctrl
    #[verifier::external_body]
    pub fn set_ctrl(&mut self, index: usize, ctrl: Tag)
        requires old(self).shape(), index < old(self).nb(), valid_byte(ctrl.0),
        ensures
            final(self).shape(),
            final(self).bucket_mask == old(self).bucket_mask,
            final(self).items == old(self).items,
            final(self).growth_left == old(self).growth_left,
            final(self).ctrl@ == old(self).ctrl@.update(index as int, ctrl.0).update(old(self).mirror_index(index as int), ctrl.0),
            old(self).mirrored() ==> final(self).mirrored(),
    {
        unimplemented!()
    }
}
