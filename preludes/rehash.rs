// Additional prelude for unit `rehash` (on top of preludes/ctrl.rs).
// Element storage is a ghost sequence `elems` of element identities, one per bucket (field of the table
// view): raw element moves become operations on it (rule R19); the hasher is an opaque function of the
// element identity (rule R8); the scope guard is elided (rule R18: unwinding is not modelled here, the
// guard's closure is verified on its own in unit `guard`).

/// the hash a LAWFUL hasher computes for an element: a function of the element only
pub uninterp spec fn elem_hash(id: int) -> u64;
/// whether the caller's hasher is lawful.  Nothing is assumed about it: an unlawful hasher may answer
/// anything, differently on every call (C05); only the placement / reachability clauses depend on lawfulness
pub uninterp spec fn hasher_lawful() -> bool;

#[derive(Clone, Copy)]
pub struct ElemPtr {
    pub idx: usize,
}
pub struct HasherDyn { pub g: Ghost<int> }
impl HasherDyn {
    // the hasher reads the element in bucket i and leaves the table as it is
    #[verifier::external_body]
    pub fn call(&self, t: &mut RawTableInner, i: usize) -> (r: u64)
        requires i < old(t).nb(),
        ensures *final(t) == *old(t), hasher_lawful() ==> r == elem_hash(old(t).elems@[i as int]),
    { unimplemented!() }
}
pub struct DropFn { pub g: Ghost<int> }

impl RawTableInner {
    // RawTableInner::bucket_ptr: the bucket must be one of the table's
    #[verifier::external_body]
    pub fn bucket_ptr(&self, index: usize, size_of: usize) -> (r: ElemPtr)
        requires index < self.nb(),
        ensures r.idx == index,
    { unimplemented!() }

    // R19: ptr::copy_nonoverlapping between two bucket pointers of this table
    #[verifier::external_body]
    pub fn elem_copy(&mut self, src: ElemPtr, dst: ElemPtr, count: usize)
        requires src.idx < old(self).nb(), dst.idx < old(self).nb(), src.idx != dst.idx,
        ensures
            final(self).elems@ == old(self).elems@.update(dst.idx as int, old(self).elems@[src.idx as int]),
            final(self).ctrl@ == old(self).ctrl@,
            final(self).bucket_mask == old(self).bucket_mask,
            final(self).growth_left == old(self).growth_left,
            final(self).items == old(self).items,
    { unimplemented!() }

    // R19: ptr::swap_nonoverlapping between two bucket pointers of this table
    #[verifier::external_body]
    pub fn elem_swap(&mut self, a: ElemPtr, b: ElemPtr, count: usize)
        requires a.idx < old(self).nb(), b.idx < old(self).nb(), a.idx != b.idx,
        ensures
            final(self).elems@ == old(self).elems@.update(a.idx as int, old(self).elems@[b.idx as int]).update(b.idx as int, old(self).elems@[a.idx as int]),
            final(self).ctrl@ == old(self).ctrl@,
            final(self).bucket_mask == old(self).bucket_mask,
            final(self).growth_left == old(self).growth_left,
            final(self).items == old(self).items,
    { unimplemented!() }

    /// bucket j holds a placed element: FULL, tagged with its element's hash, strongly reachable for it
    pub open spec fn placed(&self, j: int) -> bool {
        let h = elem_hash(self.elems@[j]);
        self.ctrl@[j] == spec_tag(h) && self.sreach(j, h)
    }
    /// position of bucket x relative to the probe start of hash h, in groups
    pub open spec fn rel_group(&self, x: int, h: u64) -> int {
        ((x - (h as usize as int) % self.nb()) % self.nb()) / (Group::WIDTH as int)
    }
}

/// number of j in [0, hi) with p(j)
pub open spec fn count_upto(p: spec_fn(int) -> bool, hi: int) -> nat
    decreases hi,
{
    if hi <= 0 { 0 } else { count_upto(p, hi - 1) + (if p(hi - 1) { 1nat } else { 0nat }) }
}

impl RawTableInner {
    /// buckets that hold an element (FULL, or marked DELETED while a rehash is in progress) with identity id
    pub open spec fn live_with(&self, id: int) -> spec_fn(int) -> bool {
        |j: int| self.ctrl@[j] != 0xFFu8 && self.elems@[j] == id
    }
    pub open spec fn full_with(&self, id: int) -> spec_fn(int) -> bool {
        |j: int| self.ctrl@[j] < 0x80u8 && self.elems@[j] == id
    }
    pub open spec fn deleted_fn(&self) -> spec_fn(int) -> bool {
        |j: int| self.ctrl@[j] == 0x80u8
    }
    /// every FULL bucket is tagged with its element's hash and strongly reachable for it
    pub open spec fn all_placed(&self) -> bool {
        forall|j: int| 0 <= j < self.nb() && #[trigger] self.ctrl@[j] < 0x80u8 ==> self.placed(j)
    }
}
