// Additional prelude for unit `iterhash` (on top of preludes/ctrl.rs): RawIterHashInner, the probe-sequence
// iterator behind HashTable::iter_hash.  It holds no reference to the table, only its control pointer; the view
// keeps a ghost copy `tbl` of the table it was made for (immutable while the iterator lives: the borrow of
// iter_hash) and ghost `start` / `k` saying where in the probe sequence it is.
#[derive(Clone, Copy)]
pub struct CtrlBase { pub view: Ghost<Seq<u8>> }
#[derive(Clone, Copy)]
pub struct CtrlAt { pub view: Ghost<Seq<u8>>, pub off: usize }
// R15b: `ctrl.add(index)`: stays inside the control array or one past its end
pub fn ptr_add(c: CtrlBase, i: usize) -> (r: CtrlAt)
    requires i <= c.view@.len(),
    ensures r.view@ == c.view@, r.off == i,
{
    CtrlAt { view: c.view, off: i }
}
impl Group {
    // Group::load through a control pointer (unaligned): WIDTH bytes must be readable
    #[verifier::external_body]
    pub fn load(p: CtrlAt) -> (g: Group)
        requires p.off + Group::WIDTH <= p.view@.len(),
        ensures g.bytes@ == p.view@.subrange(p.off as int, p.off + Group::WIDTH),
    { unimplemented!() }
}
pub struct RawIterHashInner {
    pub bucket_mask: usize,
    pub ctrl: CtrlBase,
    pub tag_hash: Tag,
    pub probe_seq: ProbeSeq,
    pub group: Group,
    pub bitmask: BitMaskIter,
    pub tbl: Ghost<RawTableInner>,
    pub start: Ghost<int>,
    pub k: Ghost<nat>,
}
impl RawIterHashInner {
    pub open spec fn wf(&self) -> bool {
        let t = self.tbl@;
        let n = t.nb();
        let w = Group::WIDTH as int;
        &&& t.shape() && t.mirrored()
        &&& self.bucket_mask == t.bucket_mask
        &&& self.ctrl.view@ == t.ctrl@
        // load factor (F1): some bucket is EMPTY
        &&& (exists|i: int| 0 <= i < n && t.ctrl@[i] == 0xFFu8)
        &&& self.tag_hash.0 < 0x80
        &&& self.start@ >= 0
        &&& self.probe_seq.pos as int == spec_pos(self.start@, n, self.k@)
        &&& self.probe_seq.pos <= self.bucket_mask
        &&& self.probe_seq.stride as int == self.k@ * w
        &&& (n >= w ==> (self.k@ as int) < n / w)
        &&& (n < w ==> self.k@ == 0)
        &&& self.group.bytes@ == t.ctrl@.subrange(self.probe_seq.pos as int, self.probe_seq.pos + w)
        &&& self.bitmask.lanes@.len() == w
        &&& 0 <= self.bitmask.pos@ <= w
        &&& (forall|x: int| #![trigger self.bitmask.lanes@[x]] 0 <= x < w ==> {
                &&& (self.group.bytes@[x] == self.tag_hash.0 ==> self.bitmask.lanes@[x])
                &&& (self.bitmask.lanes@[x] ==> self.group.bytes@[x] < 0x80u8)
            })
        // no window probed so far holds an EMPTY byte
        &&& (forall|j: nat, x: int| j < self.k@ && 0 <= x < w ==> #[trigger] t.win(spec_pos(self.start@, n, j), x) != 0xFFu8)
    }
}
