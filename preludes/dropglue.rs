// Dialect prelude for unit `dropglue` (hand-written, trusted): the drop / clear glue around three callees whose
// contracts are proved elsewhere (drop_elements: unit iter; clear_no_drop: unit ctrl) or assumed (free_buckets:
// allocator).  The table is viewed as its item count, whether it is the unallocated singleton, and three ghost
// lifecycle flags; the callees' preconditions turn "no double drop", "no leak" and "no double free" into obligations.
pub trait Allocator {}
#[derive(Clone, Copy)]
pub struct TableLayout { pub size: usize, pub ctrl_align: usize }
pub struct Life {
    /// drop_elements has run: no element is live any more
    pub dropped: bool,
    /// the allocation has been given back
    pub freed: bool,
    /// clear_no_drop has run: every control byte EMPTY, whole capacity available
    pub cleared: bool,
}
pub struct RawTableInner {
    pub bucket_mask: usize,
    pub items: usize,
    pub life: Ghost<Life>,
}
impl RawTableInner {
    pub fn is_empty_singleton(&self) -> (r: bool)
        ensures r == (self.bucket_mask == 0),
    { self.bucket_mask == 0 }

    // contract proved in unit iter (exactly the remaining elements, each once); calling it twice would drop twice
    #[verifier::external_body]
    pub fn drop_elements<T>(&mut self)
        requires !old(self).life@.dropped, !old(self).life@.freed,
        ensures
            final(self).life@.dropped, final(self).life@.freed == old(self).life@.freed, final(self).life@.cleared == old(self).life@.cleared,
            final(self).bucket_mask == old(self).bucket_mask, final(self).items == old(self).items,
    { unimplemented!() }

    // giving the buckets back: only an allocated table, only once, and only when no element is left alive in it
    #[verifier::external_body]
    pub fn free_buckets<A: Allocator>(&mut self, alloc: &A, table_layout: TableLayout)
        requires old(self).bucket_mask != 0, !old(self).life@.freed, old(self).life@.dropped || old(self).items == 0,
        ensures
            final(self).life@.freed, final(self).life@.dropped == old(self).life@.dropped, final(self).life@.cleared == old(self).life@.cleared,
            final(self).bucket_mask == old(self).bucket_mask, final(self).items == old(self).items,
    { unimplemented!() }

    // contract proved in unit ctrl; resetting the counters while elements are alive would leak them
    #[verifier::external_body]
    pub fn clear_no_drop(&mut self)
        requires old(self).life@.dropped || old(self).items == 0, !old(self).life@.freed,
        ensures
            final(self).items == 0, final(self).life@.cleared,
            final(self).life@.dropped == old(self).life@.dropped, final(self).life@.freed == old(self).life@.freed,
            final(self).bucket_mask == old(self).bucket_mask,
    { unimplemented!() }
}
pub struct RawTable<T, A> {
    pub table: RawTableInner,
    pub alloc: A,
    pub marker: Ghost<Option<T>>,
}
impl<T, A: Allocator> RawTable<T, A> {
    pub fn is_empty(&self) -> (r: bool)
        ensures r == (self.table.items == 0),
    { self.table.items == 0 }
    // R14: TABLE_LAYOUT of the element type
    #[verifier::external_body]
    pub fn table_layout() -> (r: TableLayout) { unimplemented!() }
}
/// life of the memory a raw iterator points into (only meaningful for the iterator owned by a RawIntoIter)
pub struct LifeCell { pub v: Ghost<Life> }
pub struct RawIter<T> { pub n: usize, pub mem: LifeCell, pub marker: Ghost<Option<T>> }
impl<T> RawIter<T> {
    pub open spec fn spec_len(&self) -> usize { self.n }
    #[verifier::when_used_as_spec(spec_len)]
    pub fn len(&self) -> (r: usize) ensures r == self.n, r == self.spec_len() { self.n }
}
pub struct OrigTable { pub g: Ghost<int> }
impl OrigTable {
    // R31: `orig_table.as_ptr().copy_from_nonoverlapping(&table, 1)`: the drained table is moved back into the map;
    // what is moved back must be a valid EMPTY table and everything that was in it must have been dropped
    #[verifier::external_body]
    pub fn write_back(&self, t: &RawTableInner)
        requires t.items == 0, t.life@.cleared, !t.life@.freed,
    { unimplemented!() }
}
pub struct RawDrain<T, A> {
    pub iter: RawIter<T>,
    pub table: RawTableInner,
    pub orig_table: OrigTable,
    pub marker: core::marker::PhantomData<A>,
}
pub use core::marker::PhantomData;
impl OrigTable {
    // R39: `NonNull::from(&mut self.table)`: where the drained table will be written back
    #[verifier::external_body]
    pub fn of(t: &mut RawTableInner) -> (r: OrigTable)
        ensures *final(t) == *old(t),
    { unimplemented!() }
}
impl RawTableInner {
    // R14b: `RawTableInner::NEW`, the unallocated singleton
    #[verifier::external_body]
    pub fn new_singleton() -> (r: RawTableInner)
        ensures r.bucket_mask == 0, r.items == 0, !r.life@.dropped, !r.life@.freed,
    { unimplemented!() }
}
impl<T, A: Allocator> RawTable<T, A> {
    pub open spec fn spec_len(&self) -> usize { self.table.items }
    #[verifier::when_used_as_spec(spec_len)]
    pub fn len(&self) -> (r: usize) ensures r == self.table.items, r == self.spec_len() { self.table.items }
}
impl<T, A: Allocator> RawDrain<T, A> {
    // R32: RawIter::drop_elements on the drain's iterator (contract proved in unit iter: exactly the elements not
    // yet yielded, each once); those are the elements still owned by the drain's table
    #[verifier::external_body]
    pub fn iter_drop_elements(&mut self)
        requires !old(self).table.life@.dropped, !old(self).table.life@.freed,
        ensures
            final(self).table.life@.dropped, final(self).table.life@.freed == old(self).table.life@.freed,
            final(self).table.life@.cleared == old(self).table.life@.cleared,
            final(self).table.items == old(self).table.items, final(self).table.bucket_mask == old(self).table.bucket_mask,
    { unimplemented!() }
}

// std: core::mem::replace (assumed with its documented meaning)
pub assume_specification<T>[ core::mem::replace::<T> ](dest: &mut T, src: T) -> (r: T)
    ensures *final(dest) == src, r == *old(dest),
;
// `ptr::read(p)`: a bitwise copy that leaves the source as it is (not used by the unchanged text; keeps a changed
// text that uses it inside the dialect)
pub mod ptr {
    use super::*;
    #[verifier::external_body]
    pub fn read(t: &RawTableInner) -> (r: RawTableInner)
        ensures r == *t,
    { unimplemented!() }
}

// ---- RawTable::into_iter / into_iter_from / RawIntoIter::drop ----
#[derive(Clone, Copy)]
pub struct Layout { pub size: usize, pub align: usize }
pub struct RawIntoIter<T, A> {
    pub iter: RawIter<T>,
    pub allocation: Option<(usize, Layout, A)>,
    pub marker: PhantomData<T>,
}
impl<T> RawIter<T> {
    // RawIter::drop_elements (contract proved in unit iter: exactly the elements not yet yielded, each once); the
    // memory they live in must still be there, and a second call would drop them twice
    #[verifier::external_body]
    pub fn drop_elements(&mut self)
        requires !old(self).mem.v@.dropped, !old(self).mem.v@.freed,
        ensures final(self).mem.v@.dropped, final(self).mem.v@.freed == old(self).mem.v@.freed,
            final(self).mem.v@.cleared == old(self).mem.v@.cleared, final(self).n == old(self).n,
    { unimplemented!() }
}
// R42: `alloc.deallocate(ptr, layout)` in RawIntoIter::drop -> `dealloc_of(&mut self.iter.mem, alloc, ptr, layout)`:
// the block is given back once, and only after the elements in it are gone
#[verifier::external_body]
pub fn dealloc_of<A: Allocator>(mem: &mut LifeCell, alloc: &A, ptr: usize, layout: Layout)
    requires !old(mem).v@.freed, old(mem).v@.dropped,
    ensures final(mem).v@.freed, final(mem).v@.dropped == old(mem).v@.dropped, final(mem).v@.cleared == old(mem).v@.cleared,
{ unimplemented!() }
impl<T, A: Allocator> RawTable<T, A> {
    // RawTable::iter: one item per element, over this table's memory
    #[verifier::external_body]
    pub fn iter(&self) -> (r: RawIter<T>)
        ensures r.n == self.table.items, r.mem.v@ == self.table.life@,
    { unimplemented!() }
    // contract proved in unit alloc: the singleton owns nothing, every allocated table hands its block on
    #[verifier::external_body]
    pub fn into_allocation(self) -> (r: Option<(usize, Layout, A)>)
        ensures (r is Some) == (self.table.bucket_mask != 0),
    { unimplemented!() }
}
impl<T, A: Allocator> RawIntoIter<T, A> {
    /// the owning iterator holds an allocation exactly when its memory is a real table's
    pub open spec fn owns(&self) -> bool { self.allocation is Some }
}
