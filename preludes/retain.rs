// Additional prelude for unit `retain` (on top of preludes/ctrl.rs, rehash.rs, clone.rs): HashMap::retain and
// HashTable::retain.  The raw iterator is the ascending enumeration of the FULL buckets taken when the loop starts
// (unit iter); erasing the bucket the iterator has just yielded does not disturb it (its group mask is already
// loaded, and erase touches only that bucket's byte and mirror byte -- unit ctrl): ASSUMED here, evaluated by B / R.
// The predicate is an arbitrary closure: `keep(i)` is its answer for the element in bucket i, and it logs the
// buckets it is asked about.
pub trait RetainFn<T>: Sized {
    spec fn log(&self) -> Seq<int>;
    spec fn keep(&self, i: int) -> bool;
    // R41: `f(key, value)` / `f(item.as_mut())` on the element of bucket `b`
    fn call_on(&mut self, b: &Bucket<T>) -> (r: bool)
        ensures r == old(self).keep(b.index@), final(self).log() == old(self).log().push(b.index@),
            forall|i: int| final(self).keep(i) == old(self).keep(i);
}
pub struct HashMap<K, V> { pub table: RawTable<(K, V)> }
pub struct HashTable<T> { pub raw: RawTable<T> }
impl<T> RawTable<T> {
    // contract of RawTable::erase: proved in unit glue against erase (unit ctrl)
    #[verifier::external_body]
    pub fn erase(&mut self, item: Bucket<T>)
        requires
            old(self).table.shape(), old(self).table.mirrored(),
            0 <= item.index@ < old(self).table.nb(),
            old(self).table.ctrl@[item.index@] < 0x80,
            old(self).table.items > 0, old(self).table.growth_left < usize::MAX,
        ensures
            final(self).table.shape(), final(self).table.mirrored(),
            final(self).table.bucket_mask == old(self).table.bucket_mask,
            final(self).table.items == old(self).table.items - 1,
            final(self).table.ctrl@[item.index@] == 0xFFu8 || final(self).table.ctrl@[item.index@] == 0x80u8,
            final(self).table.growth_left <= old(self).table.growth_left + 1,
            final(self).table.ctrl@ == old(self).table.ctrl@.update(item.index@, final(self).table.ctrl@[item.index@]).update(old(self).table.mirror_index(item.index@), final(self).table.ctrl@[item.index@]),
    { unimplemented!() }
}

pub open spec fn full_pred(c: Seq<u8>) -> spec_fn(int) -> bool {
    |j: int| c[j] < 0x80u8
}

// RawExtractIf { iter: RawIter<T>, table: &mut RawTable<T, A> }: the borrowed table is an owned field here (the
// borrow itself is the compiler's business).  `iter` is the enumeration taken when extract_if was called.
pub struct RawExtractIf<T> { pub iter: RawIter<T>, pub table: RawTable<T> }
impl<T> RawTable<T> {
    /// the element stored in bucket i
    pub uninterp spec fn elem_at(&self, i: int) -> T;
    // contract of RawTable::remove: proved in unit glue (control bytes and counters); the element moved out is the
    // one in the bucket (ptr::read of that bucket: B / R)
    #[verifier::external_body]
    pub fn remove(&mut self, item: Bucket<T>) -> (r: (T, InsertSlot))
        requires
            old(self).table.shape(), old(self).table.mirrored(),
            0 <= item.index@ < old(self).table.nb(),
            old(self).table.ctrl@[item.index@] < 0x80,
            old(self).table.items > 0, old(self).table.growth_left < usize::MAX,
        ensures
            final(self).table.shape(), final(self).table.mirrored(),
            final(self).table.bucket_mask == old(self).table.bucket_mask,
            final(self).table.items == old(self).table.items - 1,
            r.1.index as int == item.index@, r.0 == old(self).elem_at(item.index@),
            final(self).table.ctrl@[item.index@] == 0xFFu8 || final(self).table.ctrl@[item.index@] == 0x80u8,
            final(self).table.growth_left <= old(self).table.growth_left + 1,
            final(self).table.ctrl@ == old(self).table.ctrl@.update(item.index@, final(self).table.ctrl@[item.index@]).update(old(self).table.mirror_index(item.index@), final(self).table.ctrl@[item.index@]),
            forall|j: int| j != item.index@ ==> final(self).elem_at(j) == old(self).elem_at(j),
    { unimplemented!() }
}
impl<T> RawExtractIf<T> {
    /// what extract_if sets up and every `next` keeps: the not yet visited part of the enumeration is FULL
    pub open spec fn wf(&self) -> bool {
        let s = self.iter.s@; let t = self.table.table;
        &&& t.shape() && t.mirrored()
        &&& 0 <= self.iter.pos@ <= s.len() && s.len() <= t.nb()
        &&& forall|k: int| 0 <= k < s.len() ==> 0 <= #[trigger] s[k] < t.nb()
        &&& forall|k: int| self.iter.pos@ <= k < s.len() ==> t.ctrl@[#[trigger] s[k]] < 0x80u8
        &&& forall|a: int, b: int| 0 <= a < b < s.len() ==> s[a] < s[b]
        &&& t.items as int >= s.len() - self.iter.pos@
        &&& t.growth_left as int <= t.nb() + self.iter.pos@
    }
}
