// Additional prelude for unit `retain` (on top of preludes/ctrl.rs, rehash.rs, clone.rs): HashMap::retain and
// HashTable::retain.  The raw iterator is the ascending enumeration of the FULL buckets taken when the loop starts
// (unit iter); erasing the bucket the iterator has just yielded does not disturb it (its group mask is already
// loaded, and erase touches only that bucket's byte and mirror byte -- unit ctrl): ASSUMED here, evaluated by B / R.
// The predicate is an arbitrary closure: `keep(i)` is its answer for the element in bucket i, and it logs the
// buckets it is asked about.
pub trait RetainFn<T>: Sized {
    spec fn log(&self) -> Seq<int>;
    spec fn keep(&self, i: int) -> bool;
    // R41: `f(key, value)` / `f(item.as_mut())` on the element of bucket `b`
    fn call_on(&mut self, b: &Bucket<T>) -> (r: bool)
        ensures r == old(self).keep(b.index@), final(self).log() == old(self).log().push(b.index@),
            forall|i: int| final(self).keep(i) == old(self).keep(i);
}
pub struct HashMap<K, V> { pub table: RawTable<(K, V)> }
pub struct HashTable<T> { pub raw: RawTable<T> }
impl<T> RawTable<T> {
    // contract of RawTable::erase: proved in unit glue against erase (unit ctrl)
    #[verifier::external_body]
    pub fn erase(&mut self, item: Bucket<T>)
        requires
            old(self).table.shape(), old(self).table.mirrored(),
            0 <= item.index@ < old(self).table.nb(),
            old(self).table.ctrl@[item.index@] < 0x80,
            old(self).table.items > 0, old(self).table.growth_left < usize::MAX,
        ensures
            final(self).table.shape(), final(self).table.mirrored(),
            final(self).table.bucket_mask == old(self).table.bucket_mask,
            final(self).table.items == old(self).table.items - 1,
            final(self).table.ctrl@[item.index@] == 0xFFu8 || final(self).table.ctrl@[item.index@] == 0x80u8,
            final(self).table.growth_left <= old(self).table.growth_left + 1,
            final(self).table.ctrl@ == old(self).table.ctrl@.update(item.index@, final(self).table.ctrl@[item.index@]).update(old(self).table.mirror_index(item.index@), final(self).table.ctrl@[item.index@]),
    { unimplemented!() }
}

pub open spec fn full_pred(c: Seq<u8>) -> spec_fn(int) -> bool {
    |j: int| c[j] < 0x80u8
}
