// Dialect prelude for unit `alloc` (hand-written, trusted): the allocation path of a table.
// The block returned by the allocator is a byte vector of `layout.size` arbitrary bytes; the control pointer
// `block + ctrl_offset` is the tail of that vector (its length is an obligation-derived fact, not assumed);
// the data part is not modelled.  calculate_layout_for / capacity_to_buckets / bucket_mask_to_capacity carry
// the contracts proved on their extracted text in unit arith.
global size_of usize == 8;

pub struct Group;
impl Group {
    pub const WIDTH: usize = @WIDTH@;
}
pub trait Allocator {}
#[derive(Clone, Copy)]
pub struct Layout { pub size: usize, pub align: usize }
#[derive(Clone, Copy)]
pub struct TableLayout { pub size: usize, pub ctrl_align: usize }
pub enum TryReserveError { CapacityOverflow, AllocError }
#[derive(Clone, Copy)]
pub enum Fallibility { Fallible, Infallible }
impl Fallibility {
    // the real functions panic / abort for Infallible: if they return, the mode was Fallible
    #[verifier::external_body]
    pub fn capacity_overflow(self) -> (r: TryReserveError)
        ensures self is Fallible, r is CapacityOverflow,
    { unimplemented!() }
    #[verifier::external_body]
    pub fn alloc_err(self, layout: Layout) -> (r: TryReserveError)
        ensures self is Fallible, r is AllocError,
    { unimplemented!() }
}

pub open spec fn spec_is_pow2(x: usize) -> bool {
    x != 0 && (x & sub(x, 1)) == 0
}
pub open spec fn spec_cap_of(mask: usize) -> int {
    if mask < 8 { mask as int } else { ((mask as int + 1) / 8) * 7 }
}
pub open spec fn spec_elt(size: usize) -> int {
    if size == 0 { 1 } else { size as int }
}
/// `b` is what capacity_to_buckets returns for `want` (its Some-postcondition, proved in unit arith)
pub open spec fn admissible_min(b: usize, want: usize, size: usize) -> bool {
    &&& spec_is_pow2(b)
    &&& b >= 4
    &&& want as int <= spec_cap_of((b - 1) as usize)
    &&& spec_cap_of((b - 1) as usize) < b as int
    &&& (b >= 16 || (b == 8 && 8 * spec_elt(size) >= Group::WIDTH as int) || (b == 4 && 4 * spec_elt(size) >= Group::WIDTH as int))
    &&& (b == 4 || spec_cap_of((b / 2 - 1) as usize) < want as int
         || (b == 8 && 4 * spec_elt(size) < Group::WIDTH as int)
         || (b == 16 && 8 * spec_elt(size) < Group::WIDTH as int))
}
pub open spec fn layout_ok(tl: TableLayout) -> bool {
    spec_is_pow2(tl.ctrl_align) && tl.ctrl_align >= Group::WIDTH
}

// contract proved in unit arith on the extracted text
#[verifier::external_body]
pub fn capacity_to_buckets(cap: usize, table_layout: TableLayout) -> (r: Option<usize>)
    requires cap != 0,
    ensures
        r is None ==> cap as int * 8 > usize::MAX as int,
        r matches Some(b) ==> admissible_min(b, cap, table_layout.size),
{ unimplemented!() }
#[verifier::external_body]
pub fn bucket_mask_to_capacity(bucket_mask: usize) -> (r: usize)
    requires bucket_mask < usize::MAX,
    ensures r as int == spec_cap_of(bucket_mask),
{ unimplemented!() }
/// calculate_layout_for has no state: its answer is a function of its two arguments
pub uninterp spec fn spec_layout_for(tl: TableLayout, buckets: usize) -> Option<(Layout, usize)>;
impl TableLayout {
    // contract proved in unit arith on the extracted text (the clauses used here)
    #[verifier::external_body]
    pub fn calculate_layout_for(self, buckets: usize) -> (r: Option<(Layout, usize)>)
        requires spec_is_pow2(buckets), layout_ok(self),
        ensures
            r == spec_layout_for(self, buckets),
            r matches Some(p) ==> {
                &&& p.1 as int >= self.size as int * buckets as int
                &&& p.0.size as int == p.1 as int + buckets as int + Group::WIDTH as int
                &&& p.0.size as int <= isize::MAX as int - (self.ctrl_align as int - 1)
                &&& p.0.align == self.ctrl_align
            },
    { unimplemented!() }
}

/// what the allocator hands out: `size` bytes of arbitrary content
pub struct Block { pub bytes: Vec<u8>, pub back: Ghost<int> }
// do_alloc -> Allocator::allocate: ASSUMED to return a block of at least the requested size (trimmed to it here)
#[verifier::external_body]
pub fn do_alloc<A: Allocator>(alloc: &A, layout: Layout) -> (r: Result<Block, ()>)
    ensures r matches Ok(b) ==> b.bytes@.len() == layout.size,
{ unimplemented!() }
// R15b: `block_ptr.add(offset)`: the pointer `offset` bytes into the block, viewed as the bytes from there on
#[verifier::external_body]
pub fn ptr_add(p: Block, off: usize) -> (r: Vec<u8>)
    requires off <= p.bytes@.len(),     // `add` must stay inside the allocation or one past its end
    ensures r@ == p.bytes@.subrange(off as int, p.bytes@.len() as int),
{ unimplemented!() }

pub struct RawTableInner {
    pub ctrl: Vec<u8>,
    pub bucket_mask: usize,
    pub items: usize,
    pub growth_left: usize,
}
impl RawTableInner {
    pub open spec fn nb(&self) -> int { self.bucket_mask as int + 1 }
    /// a freshly made table of `nb` buckets: every control byte EMPTY, nothing stored, the whole capacity available
    pub open spec fn fresh(&self) -> bool {
        &&& self.bucket_mask >= 3 && self.bucket_mask < 0x4000_0000_0000_0000
        &&& spec_is_pow2((self.bucket_mask + 1) as usize)
        &&& self.ctrl@.len() == self.nb() + Group::WIDTH
        &&& (forall|j: int| 0 <= j < self.ctrl@.len() ==> #[trigger] self.ctrl@[j] == 0xFFu8)
        &&& self.items == 0
        &&& self.growth_left as int == spec_cap_of(self.bucket_mask)
    }
    // R14': `Self::NEW`, the unallocated singleton (one bucket, nothing stored, no capacity)
    #[verifier::external_body]
    pub fn new_singleton() -> (r: RawTableInner)
        ensures r.bucket_mask == 0, r.items == 0, r.growth_left == 0,
    { unimplemented!() }
    // TagSliceExt::fill_empty on the whole control slice
    #[verifier::external_body]
    pub fn ctrl_fill_empty(&mut self)
        ensures
            final(self).ctrl@.len() == old(self).ctrl@.len(),
            forall|k: int| 0 <= k < old(self).ctrl@.len() ==> #[trigger] final(self).ctrl@[k] == 0xFFu8,
            final(self).bucket_mask == old(self).bucket_mask,
            final(self).growth_left == old(self).growth_left,
            final(self).items == old(self).items,
    { unimplemented!() }
}

// ---- giving the allocation back ----
pub mod hint {
    // core::hint::unreachable_unchecked: reaching it is undefined behaviour, so its precondition is `false`
    #[verifier::external_body]
    pub fn unreachable_unchecked() -> !
        requires false,
    { unimplemented!() }
}
// R15f: `ctrl.sub(n)`: the pointer n bytes before the control pointer (the start of the block when n is the
// control offset the table was allocated with); `back` records n
#[verifier::external_body]
pub fn ptr_sub(ctrl: &Vec<u8>, n: usize) -> (r: Block)
    ensures r.back@ == n,
{ unimplemented!() }
impl Layout {
    pub fn size(&self) -> (r: usize) ensures r == self.size { self.size }
}
impl RawTableInner {
    pub open spec fn spec_is_empty_singleton(&self) -> bool { self.bucket_mask == 0 }
    #[verifier::when_used_as_spec(spec_is_empty_singleton)]
    pub fn is_empty_singleton(&self) -> (r: bool) ensures r == (self.bucket_mask == 0), r == self.spec_is_empty_singleton() { self.bucket_mask == 0 }
    pub fn buckets(&self) -> (r: usize)
        requires self.bucket_mask < usize::MAX,
        ensures r == self.bucket_mask + 1,
    { self.bucket_mask + 1 }
    /// the table owns a block that new_uninitialized obtained for this element layout
    pub open spec fn allocated_with(&self, tl: TableLayout) -> bool {
        &&& self.bucket_mask != 0 && self.bucket_mask < 0x4000_0000_0000_0000
        &&& spec_is_pow2((self.bucket_mask + 1) as usize)
        &&& layout_ok(tl)
        &&& spec_layout_for(tl, (self.bucket_mask + 1) as usize) is Some
    }
}
// Allocator::deallocate: the pointer must be the start of the block and the layout the one it was allocated with
#[verifier::external_body]
pub fn do_dealloc<A: Allocator>(alloc: &A, ptr: Block, layout: Layout, Ghost(t): Ghost<RawTableInner>, Ghost(tl): Ghost<TableLayout>)
    requires
        spec_layout_for(tl, (t.bucket_mask + 1) as usize) matches Some(p) && layout == p.0 && ptr.back@ == p.1,
{ unimplemented!() }

// ---- RawTable::into_allocation ----
pub struct RawTable<T, A> { pub table: RawTableInner, pub alloc: A, pub marker: Ghost<Option<T>> }
impl<T, A: Allocator> RawTable<T, A> {
    // R14: TABLE_LAYOUT of the element type: some fixed valid layout
    pub uninterp spec fn spec_table_layout() -> TableLayout;
    #[verifier::external_body]
    pub fn table_layout() -> (r: TableLayout)
        ensures r == Self::spec_table_layout(),
    { unimplemented!() }
    // len() == 0 (not used by the unchanged text; keeps a changed text that asks it inside the dialect)
    pub fn is_empty(&self) -> (r: bool) ensures r == (self.table.items == 0) { self.table.items == 0 }
}
impl RawTableInner {
    pub fn is_empty(&self) -> (r: bool) ensures r == (self.items == 0) { self.items == 0 }
}
// `ptr::read(&self.alloc)`: the allocator handle is moved out of a table that is forgotten right after
#[verifier::external_body]
pub fn alloc_read<A>(a: &A) -> (r: A) { unimplemented!() }
pub fn forget_table<T, A>(t: RawTable<T, A>) { }
