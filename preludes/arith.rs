// Dialect prelude for unit `arith` (hand-written, trusted; everything assumed is listed in evidence).
global size_of usize == 8;

pub struct Group;
impl Group {
    pub const WIDTH: usize = @WIDTH@;
}

#[derive(Clone, Copy)]
pub struct TableLayout {
    pub size: usize,
    pub ctrl_align: usize,
}

pub struct ProbeSeq {
    pub pos: usize,
    pub stride: usize,
}

// core::alloc::Layout mirrored as (size, align); the *documented safety precondition* of
// from_size_align_unchecked becomes a proof obligation at the call site.
pub struct Layout {
    pub size: usize,
    pub align: usize,
}
impl Layout {
    pub fn from_size_align_unchecked(size: usize, align: usize) -> (r: Layout)
        requires
            spec_is_pow2(align),
            size as int <= isize::MAX as int - (align as int - 1),
        ensures
            r.size == size,
            r.align == align,
    {
        Layout { size, align }
    }
    // core::alloc::Layout::new::<T>(): some valid layout -- alignment a power of two, size a multiple of it
    // (what Rust guarantees of every type); which one depends on T and is left arbitrary
    #[verifier::external_body]
    pub fn new<T>() -> (r: Layout)
        ensures spec_is_pow2(r.align), r.size as int % r.align as int == 0, r.size as int <= isize::MAX as int, r.align as int <= 0x2000_0000,
    { unimplemented!() }
    pub fn size(&self) -> (r: usize) ensures r == self.size { self.size }
    pub fn align(&self) -> (r: usize) ensures r == self.align { self.align }
}

pub open spec fn spec_is_pow2(x: usize) -> bool {
    x != 0 && (x & sub(x, 1)) == 0
}

// std: usize::next_power_of_two. Assumed here; discharged against the real std code by the
// CBMC harness kp_std_next_power_of_two (full usize domain).
pub assume_specification[ usize::next_power_of_two ](x: usize) -> (r: usize)
    requires
        x as int <= 0x8000_0000_0000_0000,
    ensures
        spec_is_pow2(r),
        r >= x,
        r >= 1,
        x > 1 ==> (r / 2) < x,
        x <= 1 ==> r == 1,
;

pub open spec fn spec_cap_of(mask: usize) -> int {
    if mask < 8 {
        mask as int
    } else {
        ((mask as int + 1) / 8) * 7
    }
}

pub open spec fn spec_elt(size: usize) -> int {
    if size == 0 { 1 } else { size as int }
}
