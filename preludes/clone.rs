// Additional prelude for unit `clone` (on top of preludes/ctrl.rs): RawTable::clone_from_impl.
// Elements are ghost identities (field `elems` of the table view); `clone_id` is the identity of a clone of an
// element (an arbitrary function: T::clone is not executed here; its panics are the business of the guard closure,
// unit glue, and of R).  The source's raw iterator is the ascending enumeration of its FULL buckets (unit iter).
pub uninterp spec fn clone_id(id: int) -> int;

pub struct Bucket<T> { pub index: Ghost<int>, pub marker: Ghost<Option<T>> }
pub struct RawTable<T> { pub table: RawTableInner, pub marker: Ghost<Option<T>> }
pub struct RawIter<T> { pub s: Ghost<Seq<int>>, pub pos: Ghost<int>, pub marker: Ghost<Option<T>> }

/// the FULL buckets below hi, ascending
pub open spec fn full_upto(c: Seq<u8>, hi: int) -> Seq<int>
    decreases hi,
{
    if hi <= 0 { Seq::empty() } else if c[hi - 1] < 0x80u8 { full_upto(c, hi - 1).push(hi - 1) } else { full_upto(c, hi - 1) }
}
impl<T> RawIter<T> {
    pub fn into_iter(self) -> (r: RawIter<T>) ensures r == self { self }
    // sequence form of RawIter::next (proved in unit iter in the form "smallest remaining bucket, exactly it removed",
    // lemma_min_is_next_enum turns that into the ascending enumeration)
    #[verifier::external_body]
    pub fn next(&mut self) -> (r: Option<Bucket<T>>)
        requires 0 <= old(self).pos@ <= old(self).s@.len(),
        ensures
            final(self).s@ == old(self).s@,
            r matches Some(b) ==> old(self).pos@ < old(self).s@.len() && b.index@ == old(self).s@[old(self).pos@] && final(self).pos@ == old(self).pos@ + 1,
            r is None ==> old(self).pos@ == old(self).s@.len() && final(self).pos@ == old(self).pos@,
    { unimplemented!() }
}
impl RawTableInner {
    // R5e: `src.ctrl(0).copy_to_nonoverlapping(self.ctrl(0), n)`: n control bytes copied from another table
    #[verifier::external_body]
    pub fn ctrl_copy_from(&mut self, src: &RawTableInner, count: usize)
        requires count <= src.ctrl@.len(), count <= old(self).ctrl@.len(),
        ensures
            final(self).ctrl@.len() == old(self).ctrl@.len(),
            forall|k: int| 0 <= k < old(self).ctrl@.len() ==> #[trigger] final(self).ctrl@[k] == (if k < count { src.ctrl@[k] } else { old(self).ctrl@[k] }),
            final(self).bucket_mask == old(self).bucket_mask, final(self).items == old(self).items,
            final(self).growth_left == old(self).growth_left, final(self).elems == old(self).elems,
    { unimplemented!() }
}
impl<T> RawTable<T> {
    #[verifier::external_body]
    pub fn iter(&self) -> (r: RawIter<T>)
        requires self.table.shape(),
        ensures r.s@ == full_upto(self.table.ctrl@, self.table.nb()), r.pos@ == 0,
    { unimplemented!() }
    #[verifier::external_body]
    pub fn bucket_index(&self, bucket: &Bucket<T>) -> (r: usize)
        requires 0 <= bucket.index@ < self.table.nb(),
        ensures r as int == bucket.index@,
    { unimplemented!() }
    #[verifier::external_body]
    pub fn bucket(&self, index: usize) -> (r: Bucket<T>)
        requires index < self.table.nb(),
        ensures r.index@ == index,
    { unimplemented!() }
    // R19c: `to.write(from.as_ref().clone())`: the bucket `to` of this table receives a clone of the element in
    // bucket `from` of the source
    #[verifier::external_body]
    pub fn elem_clone_from(&mut self, source: &RawTable<T>, from: &Bucket<T>, to: &Bucket<T>)
        requires 0 <= from.index@ < source.table.nb(), 0 <= to.index@ < old(self).table.nb(),
        ensures
            final(self).table.elems@ == old(self).table.elems@.update(to.index@, clone_id(source.table.elems@[from.index@])),
            final(self).table.ctrl@ == old(self).table.ctrl@, final(self).table.bucket_mask == old(self).table.bucket_mask,
            final(self).table.items == old(self).table.items, final(self).table.growth_left == old(self).table.growth_left,
    { unimplemented!() }
}
