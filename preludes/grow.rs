// Dialect prelude for unit `grow`: reserve_rehash_inner is checked against the CONTRACTS of its
// callees rehash_in_place and resize_inner (modular: their bodies are outside the Verus dialect; their
// contracts are the ones evaluated natively by r_rehash_in_place / r_resize / r_reserve).
global size_of usize == 8;

pub struct Group;
impl Group {
    pub const WIDTH: usize = @WIDTH@;
}
pub trait Allocator {}
pub struct HasherDyn;
pub struct DropFn;
#[derive(Clone, Copy)]
pub struct TableLayout {
    pub size: usize,
    pub ctrl_align: usize,
}
pub enum TryReserveError {
    CapacityOverflow,
    AllocError,
}
#[derive(Clone, Copy)]
pub enum Fallibility {
    Fallible,
    Infallible,
}
impl Fallibility {
    // the real function panics for Infallible: if it returns, the mode was Fallible
    #[verifier::external_body]
    pub fn capacity_overflow(self) -> (r: TryReserveError)
        ensures self is Fallible, r is CapacityOverflow,
    {
        unimplemented!()
    }
}

pub open spec fn spec_is_pow2(x: usize) -> bool {
    x != 0 && (x & sub(x, 1)) == 0
}
pub open spec fn spec_cap_of(mask: usize) -> int {
    if mask < 8 { mask as int } else { ((mask as int + 1) / 8) * 7 }
}

pub open spec fn spec_elt(size: usize) -> int {
    if size == 0 { 1 } else { size as int }
}
/// `b` is what capacity_to_buckets returns for `want` (its Some-postcondition, proved in unit arith)
pub open spec fn admissible_min(b: usize, want: usize, size: usize) -> bool {
    &&& spec_is_pow2(b)
    &&& b >= 4
    &&& want as int <= spec_cap_of((b - 1) as usize)
    &&& spec_cap_of((b - 1) as usize) < b as int
    &&& (b >= 16 || (b == 8 && 8 * spec_elt(size) >= Group::WIDTH as int) || (b == 4 && 4 * spec_elt(size) >= Group::WIDTH as int))
    &&& (b == 4 || spec_cap_of((b / 2 - 1) as usize) < want as int
         || (b == 8 && 4 * spec_elt(size) < Group::WIDTH as int)
         || (b == 16 && 8 * spec_elt(size) < Group::WIDTH as int))
}

pub struct RawTableInner {
    pub bucket_mask: usize,
    pub growth_left: usize,
    pub items: usize,
    /// identity of the allocation (ghost): changes exactly when a new block is installed
    pub alloc_id: Ghost<int>,
}

impl RawTableInner {
    /// accounting F1 without the tombstone count: items + growth_left <= capacity
    pub open spec fn counts_ok(&self) -> bool {
        &&& self.bucket_mask < usize::MAX
        &&& self.items as int + self.growth_left as int <= spec_cap_of(self.bucket_mask)
    }

    // contract of rehash_in_place: proved in unit `rehash` on the extracted text (no-unwind path: bucket
    // count, items, growth_left = capacity - items; the function's text contains no allocator call) and
    // evaluated natively on real tables (r_rehash_in_place)
    #[verifier::external_body]
    pub fn rehash_in_place(&mut self, hasher: &HasherDyn, size_of: usize, drop: DropFn)
        requires old(self).counts_ok(),
        ensures
            final(self).bucket_mask == old(self).bucket_mask,
            final(self).alloc_id@ == old(self).alloc_id@,
            final(self).items == old(self).items,
            final(self).growth_left as int == spec_cap_of(old(self).bucket_mask) - old(self).items,
    {
        unimplemented!()
    }

    // contract of resize_inner (evaluated natively: r_resize, r_try_reserve): a fresh table whose
    // capacity is at least the request (and whose bucket count is the minimal admissible one); on
    // error nothing changed and the caller asked for fallible behaviour
    #[verifier::external_body]
    pub fn resize_inner<A: Allocator>(&mut self, alloc: &A, capacity: usize, hasher: &HasherDyn, fallibility: Fallibility, layout: TableLayout) -> (r: Result<(), TryReserveError>)
        requires old(self).counts_ok(), old(self).items <= capacity, capacity > 0,
        ensures
            r is Ok ==> {
                &&& final(self).counts_ok()
                &&& final(self).items == old(self).items
                &&& spec_cap_of(final(self).bucket_mask) >= capacity
                &&& admissible_min((final(self).bucket_mask + 1) as usize, capacity, layout.size)
                &&& final(self).growth_left as int == spec_cap_of(final(self).bucket_mask) - old(self).items
                &&& final(self).alloc_id@ != old(self).alloc_id@
            },
            r is Err ==> {
                &&& fallibility is Fallible
                &&& final(self).bucket_mask == old(self).bucket_mask
                &&& final(self).items == old(self).items
                &&& final(self).growth_left == old(self).growth_left
                &&& final(self).alloc_id@ == old(self).alloc_id@
            },
    {
        unimplemented!()
    }
}

// core::hint::unreachable_unchecked: reaching it is undefined behaviour, so its precondition is `false`
pub mod hint {
    use super::*;
    #[verifier::external_body]
    pub fn unreachable_unchecked() -> !
        requires false,
    {
        unimplemented!()
    }
}

pub struct RawTable<T> {
    pub table: RawTableInner,
    pub marker: Ghost<Option<T>>,
}

impl RawTableInner {
    // contract of fallible_with_capacity (allocation path; evaluated natively by r_try_reserve /
    // r_no_alloc): fails only in fallible mode
    #[verifier::external_body]
    pub fn fallible_with_capacity<A: Allocator>(alloc: &A, table_layout: TableLayout, capacity: usize, fallibility: Fallibility) -> (r: Result<RawTableInner, TryReserveError>)
        ensures
            r is Err ==> fallibility is Fallible,
            r matches Ok(t) ==> t.counts_ok() && t.items == 0 && spec_cap_of(t.bucket_mask) >= capacity && t.growth_left as int == spec_cap_of(t.bucket_mask),
    {
        unimplemented!()
    }
}

impl<T> RawTable<T> {
    // contract of reserve_rehash = reserve_rehash_inner's, proved above on the extracted text
    #[verifier::external_body]
    pub fn reserve_rehash<H>(&mut self, additional: usize, hasher: H, fallibility: Fallibility) -> (r: Result<(), TryReserveError>)
        requires old(self).table.counts_ok(),
        ensures
            r is Ok ==> final(self).table.counts_ok() && final(self).table.items == old(self).table.items && final(self).table.growth_left >= additional,
            r is Err ==> fallibility is Fallible && final(self).table.bucket_mask == old(self).table.bucket_mask
                && final(self).table.items == old(self).table.items && final(self).table.growth_left == old(self).table.growth_left
                && final(self).table.alloc_id@ == old(self).table.alloc_id@,
    {
        unimplemented!()
    }
}

pub open spec fn spec_umax(a: usize, b: usize) -> usize {
    if a > b { a } else { b }
}
