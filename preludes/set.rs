// Dialect prelude for unit `set` (hand-written, trusted): HashSet's set algebra over an abstract set.
// A HashSet<T> is viewed as the mathematical set `v` of its elements together with `order`, the order in which
// its iterator yields them: a duplicate-free enumeration of `v` (what unit iter proves of the raw iterator, each
// FULL bucket exactly once, and C01 of the table, one bucket per key).  `contains` / `len` are the map
// operations specified by C01 (lookup decides membership, len counts the elements).  std's Iterator::chain is
// the concatenation of the two iterators (assumed).
use core::marker::PhantomData;
use vstd::std_specs::cmp::PartialEqSpec;

pub struct HashSet<T> {
    pub v: Ghost<Set<T>>,
    pub order: Ghost<Seq<T>>,
}
pub struct Iter<'a, T> {
    pub s: Ghost<Seq<T>>,
    pub pos: Ghost<int>,
    pub m: PhantomData<&'a T>,
}
pub struct Chain<X, Y> { pub a: X, pub b: Y }
pub struct Intersection<'a, T> { pub iter: Iter<'a, T>, pub other: &'a HashSet<T> }
pub struct Difference<'a, T> { pub iter: Iter<'a, T>, pub other: &'a HashSet<T> }
pub struct Union<'a, T> { pub iter: Chain<Iter<'a, T>, Difference<'a, T>> }
pub struct SymmetricDifference<'a, T> { pub iter: Chain<Difference<'a, T>, Difference<'a, T>> }

impl<T> HashSet<T> {
    pub open spec fn wf(&self) -> bool {
        &&& self.v@.finite()
        &&& self.order@.no_duplicates()
        &&& self.order@.len() == self.v@.len()
        &&& forall|x: T| self.v@.contains(x) <==> self.order@.contains(x)
    }
    #[verifier::external_body]
    pub fn len(&self) -> (r: usize)
        requires self.wf(),
        ensures r == self.v@.len(),
    { unimplemented!() }
    // capacity: some number not below len (not used by the unchanged set algebra; present so that a changed
    // text that consults it stays inside the dialect and is decided)
    #[verifier::external_body]
    pub fn capacity(&self) -> (r: usize)
        requires self.wf(),
        ensures r >= self.v@.len(),
    { unimplemented!() }
    #[verifier::external_body]
    pub fn contains(&self, value: &T) -> (r: bool)
        ensures r == self.v@.contains(*value),
    { unimplemented!() }
    #[verifier::external_body]
    pub fn iter<'a>(&'a self) -> (r: Iter<'a, T>)
        ensures r.s@ == self.order@, r.pos@ == 0,
    { unimplemented!() }
}
impl<'a, T> Iter<'a, T> {
    pub open spec fn ok(&self) -> bool { 0 <= self.pos@ <= self.s@.len() }
    #[verifier::external_body]
    pub fn next(&mut self) -> (r: Option<&'a T>)
        requires old(self).ok(),
        ensures
            final(self).s@ == old(self).s@, final(self).ok(),
            r matches Some(x) ==> old(self).pos@ < old(self).s@.len() && *x == old(self).s@[old(self).pos@] && final(self).pos@ == old(self).pos@ + 1,
            r is None ==> old(self).pos@ == old(self).s@.len() && final(self).pos@ == old(self).pos@,
    { unimplemented!() }
    // std Iterator::chain
    pub fn chain<Y>(self, other: Y) -> (r: Chain<Iter<'a, T>, Y>)
        ensures r.a == self, r.b == other,
    { Chain { a: self, b: other } }
}
impl<'a, T> Difference<'a, T> {
    pub fn chain<Y>(self, other: Y) -> (r: Chain<Difference<'a, T>, Y>)
        ensures r.a == self, r.b == other,
    { Chain { a: self, b: other } }
    /// x is still to be yielded: it lies at or after the iterator position and is not in `other`
    pub open spec fn will_yield(&self, x: T) -> bool {
        exists|k: int| self.iter.pos@ <= k < self.iter.s@.len() && #[trigger] self.iter.s@[k] == x && !self.other.v@.contains(x)
    }
}
impl<'a, T> Intersection<'a, T> {
    pub open spec fn will_yield(&self, x: T) -> bool {
        exists|k: int| self.iter.pos@ <= k < self.iter.s@.len() && #[trigger] self.iter.s@[k] == x && self.other.v@.contains(x)
    }
}

// ---- HashMap view for `==` ----
pub struct HashMap<K, V> {
    pub m: Ghost<Map<K, V>>,
    /// the order in which iter() yields the entries: every key of `m` exactly once, with its value
    pub order: Ghost<Seq<(K, V)>>,
}
pub struct MapIter<'a, K, V> {
    pub s: Ghost<Seq<(K, V)>>,
    pub pos: Ghost<int>,
    pub m: PhantomData<&'a (K, V)>,
}
impl<K, V> HashMap<K, V> {
    pub open spec fn wf(&self) -> bool {
        &&& self.m@.dom().finite()
        &&& self.order@.len() == self.m@.dom().len()
        &&& forall|i: int, j: int| 0 <= i < j < self.order@.len() ==> self.order@[i].0 != self.order@[j].0
        &&& forall|i: int| 0 <= i < self.order@.len() ==> self.m@.dom().contains(#[trigger] self.order@[i].0) && self.m@[self.order@[i].0] == self.order@[i].1
        &&& forall|k: K| self.m@.dom().contains(k) ==> exists|i: int| 0 <= i < self.order@.len() && #[trigger] self.order@[i].0 == k
    }
    #[verifier::external_body]
    pub fn len(&self) -> (r: usize)
        requires self.wf(),
        ensures r == self.m@.dom().len(),
    { unimplemented!() }
    #[verifier::external_body]
    pub fn get<'a>(&'a self, k: &K) -> (r: Option<&'a V>)
        ensures
            r matches Some(v) ==> self.m@.dom().contains(*k) && *v == self.m@[*k],
            r is None ==> !self.m@.dom().contains(*k),
    { unimplemented!() }
    #[verifier::external_body]
    pub fn iter<'a>(&'a self) -> (r: MapIter<'a, K, V>)
        ensures r.s@ == self.order@, r.pos@ == 0,
    { unimplemented!() }
}
impl<'a, K, V> MapIter<'a, K, V> {
    pub open spec fn ok(&self) -> bool { 0 <= self.pos@ <= self.s@.len() }
    #[verifier::external_body]
    pub fn next(&mut self) -> (r: Option<(&'a K, &'a V)>)
        requires old(self).ok(),
        ensures
            final(self).s@ == old(self).s@, final(self).ok(),
            r matches Some(kv) ==> old(self).pos@ < old(self).s@.len() && *kv.0 == old(self).s@[old(self).pos@].0 && *kv.1 == old(self).s@[old(self).pos@].1
                && final(self).pos@ == old(self).pos@ + 1,
            r is None ==> old(self).pos@ == old(self).s@.len() && final(self).pos@ == old(self).pos@,
    { unimplemented!() }
}
/// the mathematical answer: same keys, and the values under each key compare equal
pub open spec fn maps_equal<K, V: PartialEq>(a: Map<K, V>, b: Map<K, V>) -> bool {
    &&& forall|k: K| a.dom().contains(k) <==> b.dom().contains(k)
    &&& forall|k: K| a.dom().contains(k) ==> #[trigger] a[k].eq_spec(&b[k])
}
