// Dialect prelude for unit `set` (hand-written, trusted): HashSet's set algebra over an abstract set.
// A HashSet<T> is viewed as the mathematical set `v` of its elements together with `order`, the order in which
// its iterator yields them: a duplicate-free enumeration of `v` (what unit iter proves of the raw iterator, each
// FULL bucket exactly once, and C01 of the table, one bucket per key).  `contains` / `len` are the map
// operations specified by C01 (lookup decides membership, len counts the elements).  std's Iterator::chain is
// the concatenation of the two iterators (assumed).
use core::marker::PhantomData;

pub struct HashSet<T> {
    pub v: Ghost<Set<T>>,
    pub order: Ghost<Seq<T>>,
}
pub struct Iter<'a, T> {
    pub s: Ghost<Seq<T>>,
    pub pos: Ghost<int>,
    pub m: PhantomData<&'a T>,
}
pub struct Chain<X, Y> { pub a: X, pub b: Y }
pub struct Intersection<'a, T> { pub iter: Iter<'a, T>, pub other: &'a HashSet<T> }
pub struct Difference<'a, T> { pub iter: Iter<'a, T>, pub other: &'a HashSet<T> }
pub struct Union<'a, T> { pub iter: Chain<Iter<'a, T>, Difference<'a, T>> }
pub struct SymmetricDifference<'a, T> { pub iter: Chain<Difference<'a, T>, Difference<'a, T>> }

impl<T> HashSet<T> {
    pub open spec fn wf(&self) -> bool {
        &&& self.v@.finite()
        &&& self.order@.no_duplicates()
        &&& self.order@.len() == self.v@.len()
        &&& forall|x: T| self.v@.contains(x) <==> self.order@.contains(x)
    }
    #[verifier::external_body]
    pub fn len(&self) -> (r: usize)
        requires self.wf(),
        ensures r == self.v@.len(),
    { unimplemented!() }
    // capacity: some number not below len (not used by the unchanged set algebra; present so that a changed
    // text that consults it stays inside the dialect and is decided)
    #[verifier::external_body]
    pub fn capacity(&self) -> (r: usize)
        requires self.wf(),
        ensures r >= self.v@.len(),
    { unimplemented!() }
    #[verifier::external_body]
    pub fn contains(&self, value: &T) -> (r: bool)
        ensures r == self.v@.contains(*value),
    { unimplemented!() }
    #[verifier::external_body]
    pub fn iter<'a>(&'a self) -> (r: Iter<'a, T>)
        ensures r.s@ == self.order@, r.pos@ == 0,
    { unimplemented!() }
}
impl<'a, T> Iter<'a, T> {
    pub open spec fn ok(&self) -> bool { 0 <= self.pos@ <= self.s@.len() }
    #[verifier::external_body]
    pub fn next(&mut self) -> (r: Option<&'a T>)
        requires old(self).ok(),
        ensures
            final(self).s@ == old(self).s@, final(self).ok(),
            r matches Some(x) ==> old(self).pos@ < old(self).s@.len() && *x == old(self).s@[old(self).pos@] && final(self).pos@ == old(self).pos@ + 1,
            r is None ==> old(self).pos@ == old(self).s@.len() && final(self).pos@ == old(self).pos@,
    { unimplemented!() }
    // std Iterator::chain
    pub fn chain<Y>(self, other: Y) -> (r: Chain<Iter<'a, T>, Y>)
        ensures r.a == self, r.b == other,
    { Chain { a: self, b: other } }
}
impl<'a, T> Difference<'a, T> {
    pub fn chain<Y>(self, other: Y) -> (r: Chain<Difference<'a, T>, Y>)
        ensures r.a == self, r.b == other,
    { Chain { a: self, b: other } }
    /// x is still to be yielded: it lies at or after the iterator position and is not in `other`
    pub open spec fn will_yield(&self, x: T) -> bool {
        exists|k: int| self.iter.pos@ <= k < self.iter.s@.len() && #[trigger] self.iter.s@[k] == x && !self.other.v@.contains(x)
    }
}
impl<'a, T> Intersection<'a, T> {
    pub open spec fn will_yield(&self, x: T) -> bool {
        exists|k: int| self.iter.pos@ <= k < self.iter.s@.len() && #[trigger] self.iter.s@[k] == x && self.other.v@.contains(x)
    }
}
