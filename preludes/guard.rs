// Additional prelude for unit `guard`: element pointers and the drop function pointer are opaque.
pub struct ElemPtr;
#[derive(Clone, Copy)]
pub struct DropFn;
impl DropFn {
    #[verifier::external_body]
    pub fn call(&self, p: ElemPtr) { unimplemented!() }
}
impl RawTableInner {
    #[verifier::external_body]
    pub fn bucket_ptr(&self, index: usize, size_of: usize) -> (r: ElemPtr)
        requires index < self.nb(),
    { unimplemented!() }
}
