// Additional prelude for unit `guard`: element pointers and the drop function pointer are opaque.
pub struct ElemPtr;
#[derive(Clone, Copy)]
pub struct DropFn;
impl DropFn {
    #[verifier::external_body]
    pub fn call(&self, p: ElemPtr) { unimplemented!() }
}
/// the buckets below hi marked DELETED (not yet rehashed), ascending
pub open spec fn deleted_upto(c: Seq<u8>, hi: int) -> Seq<int>
    decreases hi,
{
    if hi <= 0 { Seq::empty() } else if c[hi - 1] == 0x80u8 { deleted_upto(c, hi - 1).push(hi - 1) } else { deleted_upto(c, hi - 1) }
}
impl RawTableInner {
    // R8b': `drop(t.bucket_ptr(i, size))`, the type-erased drop_in_place of the element in bucket i, recorded in the drop log
    #[verifier::external_body]
    pub fn drop_elem_at(&mut self, f: DropFn, index: usize, size_of: usize)
        requires index < old(self).nb(),
        ensures
            final(self).drop_log@ == old(self).drop_log@.push(index as int),
            final(self).ctrl@ == old(self).ctrl@, final(self).bucket_mask == old(self).bucket_mask,
            final(self).items == old(self).items, final(self).growth_left == old(self).growth_left,
            final(self).elems == old(self).elems,
    { unimplemented!() }
    #[verifier::external_body]
    pub fn bucket_ptr(&self, index: usize, size_of: usize) -> (r: ElemPtr)
        requires index < self.nb(),
    { unimplemented!() }
}
