// Dialect prelude for unit `iter` (hand-written, trusted; every assumption is listed in evidence).
// Pointers into the table are kept as INDICES: a control-byte pointer `*const u8` is the offset from
// the table's control base (rule R15), a `Bucket<T>` is the index of its bucket (its `ptr` field is
// that index; the real pointer is `data_end - index`, so `next_n(k)` is `index + k`).  The control bytes
// of the table being iterated are the uninterpreted sequence `mem_ctrl()`: it cannot change while a raw
// iterator exists (the borrow held by every safe iterator type; the caller's duty for RawIter itself).
// The control base is WIDTH-aligned (layout contract, unit arith L7), so index alignment is pointer alignment.
// BitMask / BitMaskIter / Group scanners are abstract with the bytewise contracts that CBMC proves
// complete on the real SSE2 and portable code (h_group, h_bitmask).
global size_of usize == 8;

pub uninterp spec fn mem_ctrl() -> Seq<u8>;
pub uninterp spec fn mem_nb() -> int;

pub open spec fn spec_is_pow2(x: usize) -> bool {
    x != 0 && (x & sub(x, 1)) == 0
}

/// the table behind the iterator: power-of-two bucket count >= 4, nb + WIDTH control bytes, EMPTY
/// padding after the buckets of a table smaller than one group
pub open spec fn mem_ok() -> bool {
    &&& 4 <= mem_nb() < 0x4000_0000_0000_0000
    &&& spec_is_pow2(mem_nb() as usize)
    &&& mem_ctrl().len() == mem_nb() + Group::WIDTH
    &&& (mem_nb() < Group::WIDTH ==> forall|j: int| mem_nb() <= j < Group::WIDTH ==> #[trigger] mem_ctrl()[j] == 0xFFu8)
}
pub open spec fn is_full(j: int) -> bool {
    mem_ctrl()[j] < 0x80u8
}

#[derive(Clone, Copy)]
pub struct BitMask {
    pub lanes: Ghost<Seq<bool>>,
}
pub struct BitMaskIter { pub lanes: Ghost<Seq<bool>>, pub pos: Ghost<int> }
impl BitMaskIter {
    #[verifier::external_body]
    pub fn next(&mut self) -> (r: Option<usize>)
        requires 0 <= old(self).pos@ <= old(self).lanes@.len(),
        ensures
            final(self).lanes@ == old(self).lanes@,
            r matches Some(b) ==> old(self).pos@ <= b < old(self).lanes@.len() && old(self).lanes@[b as int] && final(self).pos@ == b + 1
                && (forall|k: int| old(self).pos@ <= k < b ==> !old(self).lanes@[k]),
            r is None ==> (forall|k: int| old(self).pos@ <= k < old(self).lanes@.len() ==> !old(self).lanes@[k]) && final(self).pos@ == old(self).lanes@.len(),
    { unimplemented!() }
}
impl BitMask {
    #[verifier::external_body]
    pub fn into_iter(self) -> (r: BitMaskIter)
        ensures r.lanes@ == self.lanes@, r.pos@ == 0,
    { unimplemented!() }
    #[verifier::external_body]
    pub fn invert(self) -> (r: BitMask)
        ensures r.lanes@.len() == self.lanes@.len(), forall|k: int| 0 <= k < self.lanes@.len() ==> #[trigger] r.lanes@[k] == !self.lanes@[k],
    { unimplemented!() }
}
pub struct Group {
    pub bytes: Ghost<Seq<u8>>,
}
impl Group {
    pub const WIDTH: usize = @WIDTH@;

    // R6': an aligned group load through a control pointer; in bounds and aligned are obligations
    #[verifier::external_body]
    pub fn load_aligned(p: usize) -> (g: Group)
        requires p + Group::WIDTH <= mem_ctrl().len(), p % Group::WIDTH == 0,
        ensures g.bytes@ == mem_ctrl().subrange(p as int, p + Group::WIDTH),
    { unimplemented!() }

    #[verifier::external_body]
    pub fn match_empty(&self) -> (r: BitMask)
        requires self.bytes@.len() == Group::WIDTH,
        ensures
            r.lanes@.len() == Group::WIDTH,
            forall|k: int| #![trigger r.lanes@[k]] #![trigger self.bytes@[k]] 0 <= k < Group::WIDTH ==> r.lanes@[k] == (self.bytes@[k] == 0xFFu8),
    { unimplemented!() }
    #[verifier::external_body]
    pub fn match_empty_or_deleted(&self) -> (r: BitMask)
        requires self.bytes@.len() == Group::WIDTH,
        ensures
            r.lanes@.len() == Group::WIDTH,
            forall|k: int| #![trigger r.lanes@[k]] #![trigger self.bytes@[k]] 0 <= k < Group::WIDTH ==> r.lanes@[k] == (self.bytes@[k] >= 0x80u8),
    { unimplemented!() }
    #[verifier::external_body]
    pub fn match_full(&self) -> (r: BitMask)
        requires self.bytes@.len() == Group::WIDTH,
        ensures
            r.lanes@.len() == Group::WIDTH,
            forall|k: int| #![trigger r.lanes@[k]] #![trigger self.bytes@[k]] 0 <= k < Group::WIDTH ==> r.lanes@[k] == (self.bytes@[k] < 0x80u8),
    { unimplemented!() }
}

// R15: pointer arithmetic on control pointers as index arithmetic
pub open spec fn spec_ptr_add(p: usize, n: usize) -> usize { (p + n) as usize }
#[verifier::when_used_as_spec(spec_ptr_add)]
pub fn ptr_add(p: usize, n: usize) -> (r: usize)
    requires mem_ok(), p + n <= mem_ctrl().len(),   // `add` must stay inside the allocation or one past its end
    ensures r == p + n, r == spec_ptr_add(p, n),
{
    p + n
}
pub fn offset_from(to: usize, from: usize) -> (r: usize)
    requires to >= from,
    ensures r == to - from,
{
    to - from
}

pub struct Bucket<T> {
    pub ptr: usize,
    pub marker: Ghost<Option<T>>,
}
impl<T> Bucket<T> {
    pub open spec fn spec_next_n(&self, offset: usize) -> Bucket<T> {
        Bucket { ptr: (self.ptr + offset) as usize, marker: self.marker }
    }
    // Bucket::next_n: the result must be a bucket of the table or one past the last one
    #[verifier::when_used_as_spec(spec_next_n)]
    pub fn next_n(&self, offset: usize) -> (r: Bucket<T>)
        requires mem_ok(), self.ptr + offset <= mem_nb(),
        ensures r.ptr == self.ptr + offset, r == self.spec_next_n(offset),
    {
        Bucket { ptr: self.ptr + offset, marker: self.marker }
    }
}

/// R17: the closure handed to fold.  `log` is the sequence of buckets it has been called with, `cur` the
/// accumulator it returned last: each call must be given the current accumulator.
pub trait FoldFn<B, T> {
    spec fn log(&self) -> Seq<int>;
    spec fn cur(&self) -> B;
    fn call(&mut self, acc: B, b: Bucket<T>) -> (r: B)
        requires acc == old(self).cur(),
        ensures final(self).log() == old(self).log().push(b.ptr as int), r == final(self).cur();
}

/// the j in [0, hi) with p(j), in ascending order
pub open spec fn enum_upto(p: spec_fn(int) -> bool, hi: int) -> Seq<int>
    decreases hi,
{
    if hi <= 0 { Seq::empty() } else if p(hi - 1) { enum_upto(p, hi - 1).push(hi - 1) } else { enum_upto(p, hi - 1) }
}

pub struct RawIterRange<T> {
    pub current_group: BitMaskIter,
    pub data: Bucket<T>,
    pub next_ctrl: usize,
    pub end: usize,
}

impl<T> RawIterRange<T> {
    /// representation invariant
    pub open spec fn wf(&self) -> bool {
        let w = Group::WIDTH as int;
        &&& mem_ok()
        &&& self.data.ptr + w == self.next_ctrl
        &&& self.data.ptr as int % w == 0
        &&& self.current_group.lanes@.len() == w
        &&& 0 <= self.current_group.pos@ <= w
        &&& (forall|k: int| 0 <= k < w ==> #[trigger] self.current_group.lanes@[k] == is_full(self.data.ptr + k))
        &&& self.end <= mem_nb()
        &&& (mem_nb() >= w ==> self.end as int % w == 0 && self.next_ctrl <= self.end)
        &&& (mem_nb() < w ==> self.data.ptr == 0 && self.end == mem_nb())
    }
    pub open spec fn rem_fn(&self) -> spec_fn(int) -> bool {
        |j: int| self.rem(j)
    }
    /// the buckets the range will still yield
    pub open spec fn rem(&self, j: int) -> bool {
        (self.data.ptr + self.current_group.pos@ <= j < self.next_ctrl && is_full(j))
        || (self.next_ctrl <= j < self.end && is_full(j))
    }
}

pub struct RawIter<T> {
    pub iter: RawIterRange<T>,
    pub items: usize,
    /// R21: the buckets whose element has been dropped through this iterator, in order
    pub drop_log: Ghost<Seq<int>>,
}
pub uninterp spec fn spec_needs_drop<T>() -> bool;
#[verifier::external_body]
pub fn needs_drop<T>() -> (r: bool)
    ensures r == spec_needs_drop::<T>(),
{ unimplemented!() }
/// number of j in [0, hi) with p(j)
pub open spec fn count_upto(p: spec_fn(int) -> bool, hi: int) -> nat
    decreases hi,
{
    if hi <= 0 { 0 } else { count_upto(p, hi - 1) + (if p(hi - 1) { 1nat } else { 0nat }) }
}
impl<T> RawIter<T> {
    /// the range invariant, and `items` counts exactly what the range will still yield
    pub open spec fn wf(&self) -> bool {
        &&& self.iter.wf()
        &&& self.items as nat == count_upto(|j: int| self.iter.rem(j), mem_nb() + Group::WIDTH)
    }
}

/// L8: a tree of repeated splits.  Node(r, a, b): range r was split into the roots of a and b.
pub enum SplitTree<T> {
    Leaf(RawIterRange<T>),
    Node(RawIterRange<T>, Box<SplitTree<T>>, Box<SplitTree<T>>),
}
impl<T> SplitTree<T> {
    pub open spec fn root(&self) -> RawIterRange<T> {
        match self { SplitTree::Leaf(r) => *r, SplitTree::Node(r, _, _) => *r }
    }
    /// every inner node satisfies split's postcondition
    pub open spec fn valid(&self) -> bool
        decreases self,
    {
        match self {
            SplitTree::Leaf(_) => true,
            SplitTree::Node(r, a, b) => {
                &&& a.valid() && b.valid()
                &&& forall|j: int| #[trigger] r.rem(j) <==> (a.root().rem(j) || b.root().rem(j))
                &&& forall|j: int| !(#[trigger] a.root().rem(j) && b.root().rem(j))
            }
        }
    }
    /// number of leaves that will yield bucket j
    pub open spec fn leaves_yielding(&self, j: int) -> nat
        decreases self,
    {
        match self {
            SplitTree::Leaf(r) => if r.rem(j) { 1 } else { 0 },
            SplitTree::Node(_, a, b) => a.leaves_yielding(j) + b.leaves_yielding(j),
        }
    }
}

// FullBucketsIndices: `ctrl` (NonNull<u8>) is kept as the index of the group it points to
pub struct FullBucketsIndices {
    pub current_group: BitMaskIter,
    pub group_first_index: usize,
    pub ctrl: usize,
    pub items: usize,
}
impl FullBucketsIndices {
    pub open spec fn wf(&self) -> bool {
        let w = Group::WIDTH as int;
        &&& mem_ok()
        &&& self.ctrl == self.group_first_index
        &&& self.group_first_index as int % w == 0
        &&& self.group_first_index < mem_nb() || (self.group_first_index == 0)
        &&& self.current_group.lanes@.len() == w
        &&& 0 <= self.current_group.pos@ <= w
        &&& (forall|k: int| 0 <= k < w ==> #[trigger] self.current_group.lanes@[k] == is_full(self.group_first_index + k))
        &&& self.items as nat == count_upto(self.rem_fn(), mem_nb() + Group::WIDTH)
    }
    /// the bucket indices still to be yielded
    pub open spec fn rem(&self, j: int) -> bool {
        self.group_first_index + self.current_group.pos@ <= j < mem_nb() && is_full(j)
    }
    pub open spec fn rem_fn(&self) -> spec_fn(int) -> bool {
        |j: int| self.rem(j)
    }
}

impl<T> RawIter<T> {
    pub fn into_iter(self) -> (r: RawIter<T>) ensures r == self { self }
    // Bucket::drop (ptr::drop_in_place on the element): the bucket must hold a live element
    #[verifier::external_body]
    pub fn drop_bucket(&mut self, b: &Bucket<T>)
        requires is_full(b.ptr as int), b.ptr < mem_nb(),
        ensures
            final(self).iter == old(self).iter, final(self).items == old(self).items,
            final(self).drop_log@ == old(self).drop_log@.push(b.ptr as int),
    { unimplemented!() }
}
/// the table as far as its drop path is concerned: the item count and the log of dropped buckets
pub struct RawTableInner {
    pub items: usize,
    pub drop_log: Ghost<Seq<int>>,
}
impl RawTableInner {
    pub open spec fn all_full(j: int) -> bool { 0 <= j < mem_nb() && is_full(j) }
    // RawTableInner::iter: a RawIter over the whole table (RawIterRange::new over [0, buckets), items copied);
    // its construction goes through Bucket::from_base_index and is evaluated natively
    #[verifier::external_body]
    pub fn iter<T>(&self) -> (r: RawIter<T>)
        requires mem_ok(), self.items as nat == count_upto(|j: int| RawTableInner::all_full(j), mem_nb() + Group::WIDTH),
        ensures r.wf(), r.items == self.items, r.drop_log@ == Seq::<int>::empty(),
            forall|j: int| #[trigger] r.iter.rem(j) <==> RawTableInner::all_full(j),
    { unimplemented!() }
    #[verifier::external_body]
    pub fn drop_bucket<T>(&mut self, b: &Bucket<T>)
        requires is_full(b.ptr as int), b.ptr < mem_nb(),
        ensures
            final(self).items == old(self).items,
            final(self).drop_log@ == old(self).drop_log@.push(b.ptr as int),
    { unimplemented!() }
}
