// Dialect prelude for unit `many` (hand-written, trusted): RawTable::get_many_mut.
// A `NonNull<T>` into the table is the index of its bucket; turning N such pointers into N `&mut T` at once is
// only sound when no two of them are the same bucket, so that requirement is the PRECONDITION of the conversion
// shim: the duplicate check in the real text has to establish it.  `get_many_mut_pointers` may return anything
// (N independent lookups; unlawful eq closures included): nothing is assumed about its result.
pub struct EqMany { pub g: Ghost<int> }
#[derive(Clone, Copy, PartialEq, Eq, Structural)]
pub struct PtrIdx { pub idx: usize }
pub struct RefIdx { pub idx: usize }
pub struct RawTable<T> { pub marker: Ghost<Option<T>> }

pub open spec fn no_alias<const N: usize>(ptrs: [Option<PtrIdx>; N]) -> bool {
    forall|i: int, j: int| 0 <= i < j < N && ptrs@[i] is Some && ptrs@[j] is Some ==> ptrs@[i] != ptrs@[j]
}
impl<T> RawTable<T> {
    #[verifier::external_body]
    pub fn get_many_mut_pointers<const N: usize>(&mut self, hashes: [u64; N], eq: EqMany) -> (r: [Option<PtrIdx>; N])
    { unimplemented!() }
}
// R30c: `ptrs.map(|ptr| ptr.map(|mut ptr| ptr.as_mut()))`: N exclusive references from N pointers
#[verifier::external_body]
pub fn refs_of<const N: usize>(ptrs: [Option<PtrIdx>; N]) -> (r: [Option<RefIdx>; N])
    requires no_alias(ptrs),
    ensures forall|i: int| 0 <= i < N ==> (r@[i] is Some) == (ptrs@[i] is Some) && (ptrs@[i] matches Some(p) ==> r@[i]->Some_0.idx == p.idx),
{ unimplemented!() }
// R30b: `ptrs[..i].contains(cur)`
#[verifier::external_body]
pub fn prefix_contains<const N: usize>(ptrs: &[Option<PtrIdx>; N], i: usize, cur: &Option<PtrIdx>) -> (r: bool)
    requires i <= N,
    ensures r == exists|j: int| 0 <= j < i && ptrs@[j] == *cur,
{ unimplemented!() }
// R30d: `panic!(..)`: does not return
#[verifier::external_body]
pub fn do_panic() -> !
{ unimplemented!() }
