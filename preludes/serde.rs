// Dialect prelude for unit `serde` (hand-written, trusted): deserialisation into a map / set.
// The input format is an arbitrary MapAccess / SeqAccess: a sequence of entries that either ends or fails at
// some position, with an ARBITRARY (possibly lying) size hint.  HashMap / HashSet are viewed as the mathematical
// map / set (C01, C07); `with_capacity..` carries the obligation that the requested pre-allocation is at most 4096.
pub trait MapAccess<'de, K, V> {
    type Error;
    spec fn entries(&self) -> Seq<(K, V)>;
    spec fn pos(&self) -> int;
    /// the position at which the input fails (-1: it does not)
    spec fn fail_at(&self) -> int;
    // the hint is whatever the format claims: nothing is known about it
    fn size_hint(&self) -> Option<usize>;
    fn next_entry(&mut self) -> (r: Result<Option<(K, V)>, Self::Error>)
        requires 0 <= old(self).pos() <= old(self).entries().len(),
        ensures
            final(self).entries() == old(self).entries(), final(self).fail_at() == old(self).fail_at(),
            old(self).pos() == old(self).fail_at() ==> r is Err && final(self).pos() == old(self).pos(),
            old(self).pos() != old(self).fail_at() && old(self).pos() < old(self).entries().len() ==>
                r == Ok::<Option<(K, V)>, Self::Error>(Some(old(self).entries()[old(self).pos()])) && final(self).pos() == old(self).pos() + 1,
            old(self).pos() != old(self).fail_at() && old(self).pos() == old(self).entries().len() ==>
                r == Ok::<Option<(K, V)>, Self::Error>(None) && final(self).pos() == old(self).pos();
}
pub trait SeqAccess<'de, T> {
    type Error;
    spec fn entries(&self) -> Seq<T>;
    spec fn pos(&self) -> int;
    spec fn fail_at(&self) -> int;
    fn size_hint(&self) -> Option<usize>;
    fn next_element(&mut self) -> (r: Result<Option<T>, Self::Error>)
        requires 0 <= old(self).pos() <= old(self).entries().len(),
        ensures
            final(self).entries() == old(self).entries(), final(self).fail_at() == old(self).fail_at(),
            old(self).pos() == old(self).fail_at() ==> r is Err && final(self).pos() == old(self).pos(),
            old(self).pos() != old(self).fail_at() && old(self).pos() < old(self).entries().len() ==>
                r == Ok::<Option<T>, Self::Error>(Some(old(self).entries()[old(self).pos()])) && final(self).pos() == old(self).pos() + 1,
            old(self).pos() != old(self).fail_at() && old(self).pos() == old(self).entries().len() ==>
                r == Ok::<Option<T>, Self::Error>(None) && final(self).pos() == old(self).pos();
}

pub struct MapVisitor<K, V> { pub marker: Ghost<Option<(K, V)>> }
pub struct SeqVisitor<T> { pub marker: Ghost<Option<T>> }
pub struct HashMap<K, V> { pub m: Ghost<Map<K, V>> }
pub struct HashSet<T> { pub v: Ghost<Set<T>> }
impl<K, V> HashMap<K, V> {
    // R27: with_capacity_and_hasher_in(cap, S::default(), A::default()); pre-allocation bounded whatever the input claims
    #[verifier::external_body]
    pub fn with_capacity_view(capacity: usize) -> (r: HashMap<K, V>)
        requires capacity <= 4096,
        ensures r.m@ == Map::<K, V>::empty(),
    { unimplemented!() }
    // HashMap::insert as specified by C01: the value under the key is replaced, the old one returned
    #[verifier::external_body]
    pub fn insert(&mut self, k: K, v: V) -> (r: Option<V>)
        ensures final(self).m@ == old(self).m@.insert(k, v),
    { unimplemented!() }
}
impl<T> HashSet<T> {
    #[verifier::external_body]
    pub fn with_capacity_view(capacity: usize) -> (r: HashSet<T>)
        requires capacity <= 4096,
        ensures r.v@ == Set::<T>::empty(),
    { unimplemented!() }
    #[verifier::external_body]
    pub fn insert(&mut self, value: T) -> (r: bool)
        ensures final(self).v@ == old(self).v@.insert(value),
    { unimplemented!() }
    #[verifier::external_body]
    pub fn clear(&mut self)
        ensures final(self).v@ == Set::<T>::empty(),
    { unimplemented!() }
    #[verifier::external_body]
    pub fn reserve(&mut self, additional: usize)
        requires additional <= 4096,
        ensures final(self).v@ == old(self).v@,
    { unimplemented!() }
}
/// inserting the first n entries in order: the last value given for a key wins
pub open spec fn build_map<K, V>(s: Seq<(K, V)>, n: int) -> Map<K, V>
    decreases n,
{
    if n <= 0 { Map::empty() } else { build_map(s, n - 1).insert(s[n - 1].0, s[n - 1].1) }
}
pub open spec fn build_set<T>(s: Seq<T>, n: int) -> Set<T>
    decreases n,
{
    if n <= 0 { Set::empty() } else { build_set(s, n - 1).insert(s[n - 1]) }
}
pub mod cmp {
    use super::*;
    // core::cmp::min on usize
    pub fn min(a: usize, b: usize) -> (r: usize)
        ensures r == (if a <= b { a } else { b }),
    { if a <= b { a } else { b } }
}
pub mod size_hint {
    pub use super::cautious;
}
