// Additional prelude for unit `resize` (on top of preludes/ctrl.rs and preludes/rehash.rs).
pub trait Allocator { }
#[derive(Clone, Copy)]
pub enum Fallibility { Fallible, Infallible }
#[derive(Clone, Copy)]
pub struct TableLayout { pub size: usize, pub ctrl_align: usize }
pub enum TryReserveError { CapacityOverflow, AllocError }

/// the j in [0, hi) with p(j), in ascending order
pub open spec fn enum_upto(p: spec_fn(int) -> bool, hi: int) -> Seq<int>
    decreases hi,
{
    if hi <= 0 { Seq::empty() } else if p(hi - 1) { enum_upto(p, hi - 1).push(hi - 1) } else { enum_upto(p, hi - 1) }
}
/// number of k in [0, upto) with q(s[k])
pub open spec fn seq_count(s: Seq<int>, upto: int, q: spec_fn(int) -> bool) -> nat
    decreases upto,
{
    if upto <= 0 { 0 } else { seq_count(s, upto - 1, q) + (if q(s[upto - 1]) { 1nat } else { 0nat }) }
}

// the iterator over the indices of the FULL buckets (FullBucketsIndices): yields exactly those indices, in
// ascending order, each once.  ASSUMED here in sequence form; FullBucketsIndices::next is PROVED in unit iter in
// the form "returns the smallest remaining FULL index and removes exactly it, None iff items == 0", and
// lemma_min_is_next_enum (same unit) shows that this is the ascending enumeration used below; the construction
// `full_buckets_indices()` itself (first group loaded, items copied) is evaluated natively (r_resize).
pub struct FullBucketsIndices { pub s: Ghost<Seq<int>>, pub pos: Ghost<int> }
impl FullBucketsIndices {
    pub fn into_iter(self) -> (r: FullBucketsIndices) ensures r == self { self }
    #[verifier::external_body]
    pub fn next(&mut self) -> (r: Option<usize>)
        requires 0 <= old(self).pos@ <= old(self).s@.len(),
        ensures
            final(self).s@ == old(self).s@,
            r matches Some(i) ==> old(self).pos@ < old(self).s@.len() && i as int == old(self).s@[old(self).pos@] && final(self).pos@ == old(self).pos@ + 1,
            r is None ==> old(self).pos@ == old(self).s@.len() && final(self).pos@ == old(self).pos@,
    { unimplemented!() }
}

impl RawTableInner {
    pub open spec fn full_fn(&self) -> spec_fn(int) -> bool {
        |j: int| self.ctrl@[j] < 0x80u8
    }
    #[verifier::external_body]
    pub fn full_buckets_indices(&self) -> (r: FullBucketsIndices)
        requires self.shape(),
        ensures r.s@ == enum_upto(self.full_fn(), self.nb()), r.pos@ == 0,
    { unimplemented!() }

    // contract of prepare_resize: PROVED in unit `alloc` on the extracted text (down to the allocator call) and
    // evaluated natively (r_resize, r_layouts): a fresh, entirely EMPTY table with room for `capacity` elements,
    // or an error (fallible mode only) and nothing done
    #[verifier::external_body]
    pub fn prepare_resize<A: Allocator>(&self, alloc: &A, table_layout: TableLayout, capacity: usize, fallibility: Fallibility) -> (r: Result<RawTableInner, TryReserveError>)
        requires self.items <= capacity, capacity > 0,
        ensures
            r matches Ok(t) ==> {
                &&& t.shape() && t.mirrored()
                &&& forall|j: int| 0 <= j < t.ctrl@.len() ==> #[trigger] t.ctrl@[j] == 0xFFu8
                &&& t.items == 0
                &&& t.growth_left as int == spec_cap_of(t.bucket_mask)
                &&& spec_cap_of(t.bucket_mask) >= capacity
                &&& t.elems@.len() == t.nb()
            },
            r is Err ==> fallibility is Fallible,
    { unimplemented!() }

    // R19b: ptr::copy_nonoverlapping from a bucket of another table (a different allocation) into one of this table
    #[verifier::external_body]
    pub fn elem_copy_from(&mut self, src_t: &RawTableInner, src: ElemPtr, dst: ElemPtr, count: usize)
        requires src.idx < src_t.nb(), dst.idx < old(self).nb(),
        ensures
            final(self).elems@ == old(self).elems@.update(dst.idx as int, src_t.elems@[src.idx as int]),
            final(self).ctrl@ == old(self).ctrl@,
            final(self).bucket_mask == old(self).bucket_mask,
            final(self).growth_left == old(self).growth_left,
            final(self).items == old(self).items,
    { unimplemented!() }
}

