// Lemmas for unit `shrink`.

// capacity_to_buckets' postcondition pins its result: two admissible minimal bucket counts for the
// same request and element size are equal
proof fn lemma_admissible_unique(b1: usize, b2: usize, want: usize, size: usize)
    requires admissible_min(b1, want, size), admissible_min(b2, want, size),
    ensures b1 == b2,
{
    if b1 < b2 {
        lemma_admissible_lt(b1, b2, want, size);
    } else if b2 < b1 {
        lemma_admissible_lt(b2, b1, want, size);
    }
}

proof fn lemma_admissible_lt(b1: usize, b2: usize, want: usize, size: usize)
    requires admissible_min(b1, want, size), admissible_min(b2, want, size), b1 < b2,
    ensures false,
{
    // powers of two: b1 < b2 ==> b1 <= b2 / 2
    assert(spec_is_pow2(b1) && spec_is_pow2(b2) && b1 < b2 ==> b1 <= b2 / 2) by(bit_vector);
    assert(spec_is_pow2(b2) && b2 >= 4 && b2 != 4 && b2 != 8 && b2 != 16 ==> b2 >= 32) by(bit_vector);
    assert(spec_is_pow2(b1) && b1 >= 4 && b1 < 16 ==> b1 == 4 || b1 == 8) by(bit_vector);
    let h = (b2 / 2) as usize;
    // usable capacity is monotone in the bucket count
    assert(spec_cap_of((b1 - 1) as usize) <= spec_cap_of((h - 1) as usize));
}
