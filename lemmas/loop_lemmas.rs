// Lemmas used by the probe loops of unit `ctrl`.
// number of groups as a power of two: nb == WIDTH * pow2(g)
proof fn lemma_groups(t: &RawTableInner) -> (g: nat)
    requires t.shape(), t.nb() >= Group::WIDTH,
    ensures t.nb() == Group::WIDTH * pow2(g),
{
    let e = lemma_pow2_exponent((t.bucket_mask + 1) as usize);
    lemma2_to64();
    let w: nat = if Group::WIDTH == 16 { 4 } else { 3 };
    assert(pow2(w) == Group::WIDTH);
    if e < w {
        lemma_pow2_strictly_increases(e, w);
    }
    lemma_pow2_adds(w, (e - w) as nat);
    (e - w) as nat
}


// t = (i0 - p) % n, 0 <= i0, p < n  ==>  (p + t) % n == i0
proof fn lemma_window_index(i0: int, p: int, n: int)
    requires 0 <= i0 < n, 0 <= p < n,
    ensures (p + (i0 - p) % n) % n == i0,
{
    let d = i0 - p;
    if d >= 0 {
        lemma_small_mod(d as nat, n as nat);
        lemma_small_mod(i0 as nat, n as nat);
    } else {
        // d in (-n, 0): d % n == d + n
        lemma_fundamental_div_mod(d, n);
        lemma_mod_bound(d, n);
        assert(d / n == -1) by(nonlinear_arith) requires d == n * (d / n) + d % n, 0 <= d % n < n, -n < d < 0;
        assert(d % n == d + n);
        lemma_mod_self_0(n);
        lemma_add_mod_noop(i0, n, n);
        lemma_small_mod(i0 as nat, n as nat);
        assert((i0 + n) % n == i0) by { lemma_mod_add_multiples_vanish(i0, n); }
    }
}

// a full byte read at window position pos + t belongs to bucket (pos + t) % nb  (also for tables
// smaller than a group: positions in the padding are EMPTY, positions >= WIDTH mirror buckets)
proof fn lemma_small_window_read(t: &RawTableInner, pos: int, b: int)
    requires t.shape(), t.mirrored(), 0 <= pos < t.nb(), 0 <= b < Group::WIDTH, t.ctrl@[pos + b] < 0x80u8,
    ensures t.ctrl@[(pos + b) % t.nb()] == t.ctrl@[pos + b],
{
    let n = t.nb();
    if n >= Group::WIDTH {
        lemma_mirror_read(t, pos + b);
    } else {
        let p = pos + b;
        if p < n {
            lemma_small_mod(p as nat, n as nat);
        } else {
            // padding bytes are EMPTY, not full: p >= WIDTH, the mirror of bucket p - WIDTH
            assert(p >= Group::WIDTH) by {
                if p < Group::WIDTH {
                    assert(t.ctrl@[p] == 0xFFu8);
                }
            }
            let j = p - Group::WIDTH;
            assert(0 <= j < n);
            assert(t.ctrl@[Group::WIDTH + j] == t.ctrl@[j]);
            lemma_width_multiple(t);
            // n is 4 or 8 and WIDTH is 8 or 16: (WIDTH + j) % n == j by constant arithmetic
            let w = Group::WIDTH as int;
            assert(w == 16 || w == 8);
            if n == 4 {
                assert(w % 4 == 0);
                assert((w + j) % 4 == j) by(nonlinear_arith) requires w % 4 == 0, 0 <= j < 4;
            } else {
                assert(n == 8);
                assert(w % 8 == 0);
                assert((w + j) % 8 == j) by(nonlinear_arith) requires w % 8 == 0, 0 <= j < 8;
            }
            assert((pos + b) % n == j);
        }
    }
}
// a table smaller than a group has 4 or 8 buckets
proof fn lemma_width_multiple(t: &RawTableInner)
    requires t.shape(), t.nb() < Group::WIDTH,
    ensures t.nb() == 4 || t.nb() == 8,
{
    let m = t.bucket_mask;
    let m1: usize = (m + 1) as usize;
    assert(sub(m1, 1) == m);
    assert(m1 >= 4 && m1 < 16 && (m1 & sub(m1, 1)) == 0 ==> m1 == 4 || m1 == 8) by(bit_vector);
}
