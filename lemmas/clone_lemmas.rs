// Lemmas for unit `clone`.
proof fn lemma_full_upto_members(c: Seq<u8>, hi: int)
    ensures
        forall|k: int| 0 <= k < full_upto(c, hi).len() ==> 0 <= #[trigger] full_upto(c, hi)[k] < hi && c[full_upto(c, hi)[k]] < 0x80u8,
        forall|a: int, b: int| 0 <= a < b < full_upto(c, hi).len() ==> full_upto(c, hi)[a] < full_upto(c, hi)[b],
        forall|j: int| 0 <= j < hi && c[j] < 0x80u8 ==> exists|k: int| 0 <= k < full_upto(c, hi).len() && #[trigger] full_upto(c, hi)[k] == j,
    decreases hi,
{
    if hi > 0 {
        lemma_full_upto_members(c, hi - 1);
        let p = full_upto(c, hi - 1);
        let s = full_upto(c, hi);
        assert forall|j: int| 0 <= j < hi && c[j] < 0x80u8 implies exists|k: int| 0 <= k < s.len() && #[trigger] s[k] == j by {
            if j == hi - 1 {
                assert(s[s.len() - 1] == j);
            } else {
                let k = choose|k: int| 0 <= k < p.len() && #[trigger] p[k] == j;
                assert(s[k] == j);
            }
        }
    }
}

// vacuity canary (MUST fail): clone_from_impl's precondition is satisfiable with a non-trivial source
proof fn canary_clone_pre(s: &RawTableInner, t: &RawTableInner, j: int)
    requires s.shape(), t.bucket_mask == s.bucket_mask, t.ctrl@.len() == s.ctrl@.len(), t.elems@.len() == s.nb(), s.elems@.len() == s.nb(),
        0 <= j < s.nb(), s.ctrl@[j] < 0x80u8, s.nb() >= Group::WIDTH,
    ensures false {}
