// L4: the load-factor accounting F1 yields the "an EMPTY bucket exists" hypothesis of the probe loops.
pub open spec fn cnt(c: Seq<u8>, n: int, p: spec_fn(u8) -> bool) -> int
    decreases n,
{
    if n <= 0 { 0 } else { cnt(c, n - 1, p) + (if p(c[n - 1]) { 1int } else { 0int }) }
}
pub open spec fn is_full(b: u8) -> bool { b < 0x80 }
pub open spec fn is_del(b: u8) -> bool { b == 0x80 }
pub open spec fn is_empty(b: u8) -> bool { b == 0xFF }

proof fn lemma_partition(c: Seq<u8>, n: int)
    requires 0 <= n <= c.len(), forall|j: int| 0 <= j < n ==> valid_byte(#[trigger] c[j]),
    ensures cnt(c, n, |b: u8| is_full(b)) + cnt(c, n, |b: u8| is_del(b)) + cnt(c, n, |b: u8| is_empty(b)) == n,
    decreases n,
{
    if n > 0 { lemma_partition(c, n - 1); }
}
proof fn lemma_cnt_pos_witness(c: Seq<u8>, n: int, p: spec_fn(u8) -> bool) -> (i: int)
    requires 0 <= n <= c.len(), cnt(c, n, p) >= 1,
    ensures 0 <= i < n, p(c[i]),
    decreases n,
{
    if p(c[n - 1]) { n - 1 } else { lemma_cnt_pos_witness(c, n - 1, p) }
}
// L4: the accounting invariant F1 (growth_left + items + tombstones == capacity, items == #FULL,
// tombstones == #DELETED) gives an EMPTY bucket -- the hypothesis of the three probe loops
proof fn lemma_f1_gives_empty(c: Seq<u8>, mask: usize, items: int, growth_left: int) -> (i: int)
    requires
        mask >= 3, mask < usize::MAX, mask as int + 1 <= c.len(),
        forall|j: int| 0 <= j < mask as int + 1 ==> valid_byte(#[trigger] c[j]),
        items == cnt(c, mask as int + 1, |b: u8| is_full(b)),
        growth_left >= 0,
        growth_left + items + cnt(c, mask as int + 1, |b: u8| is_del(b)) == spec_cap_of(mask),
    ensures 0 <= i < mask as int + 1, c[i] == 0xFFu8,
{
    let n = mask as int + 1;
    lemma_partition(c, n);
    assert(spec_cap_of(mask) < n);
    let e = cnt(c, n, |b: u8| is_empty(b));
    assert(e >= 1);
    let i = lemma_cnt_pos_witness(c, n, |b: u8| is_empty(b));
    i
}
