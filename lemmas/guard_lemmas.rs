// Lemmas for unit `guard`: counting un-rehashed (DELETED-marked) buckets.
/// number of DELETED bytes among buckets [0, n)
pub open spec fn count_deleted(c: Seq<u8>, n: int) -> int
    decreases n,
{
    if n <= 0 { 0 } else { count_deleted(c, n - 1) + (if c[n - 1] == 0x80u8 { 1int } else { 0int }) }
}
proof fn lemma_count_update(c: Seq<u8>, n: int, i: int, v: u8)
    requires 0 <= n <= i < c.len(),
    ensures count_deleted(c.update(i, v), n) == count_deleted(c, n),
    decreases n,
{
    if n > 0 { lemma_count_update(c, n - 1, i, v); }
}
proof fn lemma_count_bounds(c: Seq<u8>, n: int)
    requires 0 <= n <= c.len(),
    ensures 0 <= count_deleted(c, n) <= n,
    decreases n,
{
    if n > 0 { lemma_count_bounds(c, n - 1); }
}

proof fn lemma_count_mono(c: Seq<u8>, a: int, b: int)
    requires 0 <= a <= b <= c.len(),
    ensures count_deleted(c, a) <= count_deleted(c, b),
    decreases b - a,
{
    if a < b { lemma_count_mono(c, a, b - 1); }
}

// vacuity canary (MUST fail): the guard's precondition is satisfiable with markers present
proof fn canary_guard_pre(t: &RawTableInner, j: int)
    requires t.shape(), t.mirrored(), t.items as int >= count_deleted(t.ctrl@, t.nb()), t.items as int <= spec_cap_of(t.bucket_mask),
        0 <= j < t.nb(), t.ctrl@[j] == 0x80u8, t.nb() >= Group::WIDTH,
    ensures false {}
