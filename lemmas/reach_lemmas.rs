// Reachability (F2) lemmas over the contracts of unit `ctrl`.
// L3: turning a special (EMPTY / DELETED) bucket FULL -- what record_item_insert_at does -- creates no
// EMPTY byte anywhere, so every reachability certificate stays valid
proof fn lemma_insert_keeps_reach(t: &RawTableInner, t2: &RawTableInner, idx: int, tag: u8, i: int, h: u64)
    requires
        t.shape(), t2.shape(), t2.bucket_mask == t.bucket_mask,
        0 <= idx < t.nb(), tag < 0x80,
        t2.ctrl@ == t.ctrl@.update(idx, tag).update(t.mirror_index(idx), tag),
        t.reach(i, h),
    ensures
        t2.reach(i, h),
{
    let k = choose|k: nat| #[trigger] t.reach_at(i, h, k);
    let n = t.nb();
    let start = h as usize as int;
    assert forall|j: nat, tt: int| j < k && 0 <= tt < Group::WIDTH implies #[trigger] t2.win(spec_pos(start, n, j), tt) != 0xFFu8 by {
        lemma_pos_range(start, n, j);
        assert(t.win(spec_pos(start, n, j), tt) != 0xFFu8);
    }
    assert(t2.reach_at(i, h, k));
}
