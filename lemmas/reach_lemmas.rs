// Reachability (F2) lemmas over the contracts of unit `ctrl`.
// L3: turning a special (EMPTY / DELETED) bucket FULL -- what record_item_insert_at does -- creates no
// EMPTY byte anywhere, so every reachability certificate stays valid
proof fn lemma_insert_keeps_reach(t: &RawTableInner, t2: &RawTableInner, idx: int, tag: u8, i: int, h: u64)
    requires
        t.shape(), t2.shape(), t2.bucket_mask == t.bucket_mask,
        0 <= idx < t.nb(), tag < 0x80,
        t2.ctrl@ == t.ctrl@.update(idx, tag).update(t.mirror_index(idx), tag),
        t.reach(i, h),
    ensures
        t2.reach(i, h),
{
    let k = choose|k: nat| #[trigger] t.reach_at(i, h, k);
    let n = t.nb();
    let start = h as usize as int;
    assert forall|j: nat, tt: int| j < k && 0 <= tt < Group::WIDTH implies #[trigger] t2.win(spec_pos(start, n, j), tt) != 0xFFu8 by {
        lemma_pos_range(start, n, j);
        assert(t.win(spec_pos(start, n, j), tt) != 0xFFu8);
    }
    assert(t2.reach_at(i, h, k));
}

// L5: lookup is complete.  A bucket i that is reachable for hash h, carries h's tag and is accepted by eq
// contradicts the certificate find_inner returns with `None` -- so find_inner cannot answer None for it.
proof fn lemma_find_complete(t: &RawTableInner, i: int, h: u64, kk: nat, f: spec_fn(usize) -> bool)
    requires
        t.shape(), t.mirrored(), 0 <= i < t.nb(),
        t.ctrl@[i] == spec_tag(h), spec_tag(h) < 0x80u8,
        t.reach(i, h), f(i as usize),
        t.none_witness(h as usize as int, kk, spec_tag(h), f),
    ensures false,
{
    let n = t.nb();
    let start = h as usize as int;
    let k = choose|k: nat| #[trigger] t.reach_at(i, h, k);
    assert(t.reach_at(i, h, k));
    if k <= kk {
        let p = spec_pos(start, n, k);
        lemma_pos_range(start, n, k);
        assert(t.window_rejects(start, k, spec_tag(h), f));
        if n >= Group::WIDTH {
            let tt = (i - p) % n;
            lemma_window_index(i, p, n);
            lemma_mirror_read(t, p + tt);
            assert(t.win(p, tt) == spec_tag(h));
        } else {
            // one window holds every bucket: buckets p.. at offsets 0.., buckets 0..p-1 through the mirror
            let tt = if i >= p { i - p } else { Group::WIDTH + i - p };
            assert(0 <= tt < Group::WIDTH);
            if i >= p {
                lemma_small_mod(i as nat, n as nat);
            } else {
                assert(t.ctrl@[Group::WIDTH + i] == t.ctrl@[i]);
                lemma_width_multiple(t);
                if n == 4 { assert((Group::WIDTH + i) % 4 == i); } else { assert((Group::WIDTH + i) % 8 == i); }
            }
            assert(t.win(p, tt) == spec_tag(h));
            assert((p + tt) % n == i);
        }
    } else {
        let tt = choose|tt: int| 0 <= tt < Group::WIDTH && #[trigger] t.win(spec_pos(start, n, kk), tt) == 0xFFu8;
        assert(t.win(spec_pos(start, n, kk), tt) != 0xFFu8);
    }
}

proof fn lemma_mod_shift(a: int, b: int, d: int, n: int)
    requires n > 0, a % n == b % n,
    ensures (a + d) % n == (b + d) % n,
{
    lemma_add_mod_noop(a, d, n);
    lemma_add_mod_noop(b, d, n);
}

proof fn lemma_tz_hit(l: Seq<bool>)
    ensures 0 <= spec_tz(l) <= l.len(), spec_tz(l) < l.len() ==> l[spec_tz(l)],
    decreases l.len(),
{
    if l.len() == 0 || l[0] {
    } else {
        let rest = l.subrange(1, l.len() as int);
        lemma_tz_hit(rest);
        if spec_tz(rest) < rest.len() {
            assert(rest[spec_tz(rest)] == l[spec_tz(rest) + 1]);
        }
    }
}

proof fn lemma_lz_hit(l: Seq<bool>)
    ensures 0 <= spec_lz(l) <= l.len(), spec_lz(l) < l.len() ==> l[l.len() - 1 - spec_lz(l)],
    decreases l.len(),
{
    if l.len() == 0 || l[l.len() - 1] {
    } else {
        let rest = l.subrange(0, l.len() - 1);
        lemma_lz_hit(rest);
        if spec_lz(rest) < rest.len() {
            assert(rest[rest.len() - 1 - spec_lz(rest)] == l[rest.len() - 1 - spec_lz(rest)]);
        }
    }
}

// erase, tables of at least one group: when leading_zeros + trailing_zeros < WIDTH the two scans pin down
// an EMPTY byte on either side of the bucket (the gap witness)
proof fn lemma_gap_witness(t: &RawTableInner, index: usize, ib: usize, before: Seq<bool>, after: Seq<bool>)
    requires
        t.shape(), t.mirrored(), index < t.nb(), t.nb() >= Group::WIDTH,
        t.ctrl@[index as int] < 0x80u8,
        ib == index.wrapping_sub(Group::WIDTH) & t.bucket_mask,
        before.len() == Group::WIDTH, after.len() == Group::WIDTH,
        forall|k: int| 0 <= k < Group::WIDTH ==> before[k] == (t.ctrl@[ib + k] == 0xFFu8),
        forall|k: int| 0 <= k < Group::WIDTH ==> after[k] == (t.ctrl@[index + k] == 0xFFu8),
        spec_lz(before) + spec_tz(after) < Group::WIDTH,
    ensures
        t.gap_witness(index as int, spec_lz(before), spec_tz(after)),
{
    let n = t.nb();
    let w = Group::WIDTH as int;
    let lz = spec_lz(before);
    let tz = spec_tz(after);
    let m = t.bucket_mask;
    lemma_lz_hit(before);
    lemma_tz_hit(after);
    lemma_index_before(index, m);
    assert(!after[0]);
    assert(tz >= 1);
    // the EMPTY byte found by the scan after the bucket
    assert(after[tz]);
    assert(t.ctrl@[index + tz] == 0xFFu8);
    lemma_mirror_read(t, index + tz);
    // the EMPTY byte found by the scan before the bucket
    assert(before[w - 1 - lz]);
    assert(t.ctrl@[ib + (w - 1 - lz)] == 0xFFu8);
    lemma_mirror_read(t, ib + (w - 1 - lz));
    // (ib + WIDTH) % n == index
    lemma_index2(index, m);
    lemma_small_mod(index as nat, n as nat);
    if index < Group::WIDTH {
        lemma_mod_add_multiples_vanish(index as int, n);
    }
    assert((ib + w) % n == index as int);
    lemma_mod_shift(ib + w, index as int, -1 - lz, n);
}

// L2: erase keeps every other reachability certificate.  Writing DELETED never creates an EMPTY byte;
// writing EMPTY happens only under the gap witness, and then every probe window containing the bucket
// already held an EMPTY byte -- so no certificate passes through such a window.
proof fn lemma_erase_keeps_reach(t: &RawTableInner, t2: &RawTableInner, index: int, c: u8, lz: int, tz: int, i: int, h: u64)
    requires
        t.shape(), t.mirrored(), t2.shape(), t2.bucket_mask == t.bucket_mask,
        0 <= index < t.nb(),
        c == 0xFFu8 || c == 0x80u8,
        t2.ctrl@ == t.ctrl@.update(index, c).update(t.mirror_index(index), c),
        (t.nb() >= Group::WIDTH && c == 0xFFu8) ==> t.gap_witness(index, lz, tz),
        t.reach(i, h),
    ensures
        t2.reach(i, h),
{
    let k = choose|k: nat| #[trigger] t.reach_at(i, h, k);
    let n = t.nb();
    let w = Group::WIDTH as int;
    let start = h as usize as int;
    assert forall|j: nat, tt: int| j < k && 0 <= tt < Group::WIDTH implies #[trigger] t2.win(spec_pos(start, n, j), tt) != 0xFFu8 by {
        let pj = spec_pos(start, n, j);
        lemma_pos_range(start, n, j);
        assert(t.win(pj, tt) != 0xFFu8);
        let q = pj + tt;
        if c == 0xFFu8 && (q == index || q == t.mirror_index(index)) {
            // n >= WIDTH here: tables smaller than a group have k == 0
            assert(n >= Group::WIDTH);
            lemma_small_mod(index as nat, n as nat);
            if q != index {
                lemma_mod_add_multiples_vanish(index, n);
            }
            assert(q % n == index % n);
            if tt >= lz + 1 {
                let o = tt - lz - 1;
                lemma_mirror_read(t, pj + o);
                lemma_mod_shift(q, index, -1 - lz, n);
                assert(t.win(pj, o) == 0xFFu8);
            } else {
                let o = tt + tz;
                lemma_mirror_read(t, pj + o);
                lemma_mod_shift(q, index, tz, n);
                assert(t.win(pj, o) == 0xFFu8);
            }
            assert(false);
        }
    }
    assert(t2.reach_at(i, h, k));
}

// F2 of the whole table is kept by insertion into a slot that is reachable for the new hash ...
proof fn lemma_insert_keeps_f2(t: &RawTableInner, t2: &RawTableInner, idx: int, h: u64, hs: Map<int, u64>)
    requires
        t.shape(), t2.shape(), t2.bucket_mask == t.bucket_mask,
        0 <= idx < t.nb(), spec_tag(h) < 0x80u8,
        t2.ctrl@ == t.ctrl@.update(idx, spec_tag(h)).update(t.mirror_index(idx), spec_tag(h)),
        t.f2(hs), t.reach(idx, h),
    ensures
        t2.f2(hs.insert(idx, h)),
{
    let hs2 = hs.insert(idx, h);
    assert forall|i: int| 0 <= i < t2.nb() && #[trigger] t2.ctrl@[i] < 0x80u8 implies
        hs2.dom().contains(i) && t2.ctrl@[i] == spec_tag(hs2[i]) && t2.reach(i, hs2[i]) by {
        if i == idx {
            lemma_insert_keeps_reach(t, t2, idx, spec_tag(h), idx, h);
        } else {
            assert(t2.ctrl@[i] == t.ctrl@[i]);
            lemma_insert_keeps_reach(t, t2, idx, spec_tag(h), i, hs[i]);
        }
    }
}

// ... and by erase (either byte it may write), for the remaining elements
proof fn lemma_erase_keeps_f2(t: &RawTableInner, t2: &RawTableInner, index: int, c: u8, lz: int, tz: int, hs: Map<int, u64>)
    requires
        t.shape(), t.mirrored(), t2.shape(), t2.bucket_mask == t.bucket_mask,
        0 <= index < t.nb(),
        c == 0xFFu8 || c == 0x80u8,
        t2.ctrl@ == t.ctrl@.update(index, c).update(t.mirror_index(index), c),
        (t.nb() >= Group::WIDTH && c == 0xFFu8) ==> t.gap_witness(index, lz, tz),
        t.f2(hs),
    ensures
        t2.f2(hs.remove(index)),
{
    let hs2 = hs.remove(index);
    assert forall|i: int| 0 <= i < t2.nb() && #[trigger] t2.ctrl@[i] < 0x80u8 implies
        hs2.dom().contains(i) && t2.ctrl@[i] == spec_tag(hs2[i]) && t2.reach(i, hs2[i]) by {
        assert(i != index);
        assert(t2.ctrl@[i] == t.ctrl@[i]);
        lemma_erase_keeps_reach(t, t2, index, c, lz, tz, i, hs[i]);
    }
}

// L5 (lookup decides membership).  Over find_inner's proved postcondition, F2 and a lawful Hash/Eq pair
// (every bucket eq accepts holds an element stored under the probed hash): the answer is Some exactly
// when some FULL bucket is accepted by eq -- a present key is always found, an absent key never.
proof fn lemma_lookup_decides(t: &RawTableInner, h: u64, f: spec_fn(usize) -> bool, r: Option<usize>, hs: Map<int, u64>)
    requires
        t.shape(), t.mirrored(), t.f2(hs),
        forall|i: int| 0 <= i < t.nb() && #[trigger] t.ctrl@[i] < 0x80u8 && f(i as usize) ==> hs[i] == h,
        r matches Some(i) ==> i < t.nb() && t.ctrl@[i as int] < 0x80u8 && f(i),
        r is None ==> exists|kk: nat| #[trigger] t.none_witness(h as usize as int, kk, spec_tag(h), f),
    ensures
        r is Some <==> exists|i: int| 0 <= i < t.nb() && #[trigger] t.ctrl@[i] < 0x80u8 && f(i as usize),
{
    if r is Some {
        let i = r.unwrap() as int;
        assert(0 <= i < t.nb() && t.ctrl@[i] < 0x80u8 && f(i as usize));
    } else {
        if exists|i: int| 0 <= i < t.nb() && #[trigger] t.ctrl@[i] < 0x80u8 && f(i as usize) {
            let i = choose|i: int| 0 <= i < t.nb() && #[trigger] t.ctrl@[i] < 0x80u8 && f(i as usize);
            let kk = choose|kk: nat| #[trigger] t.none_witness(h as usize as int, kk, spec_tag(h), f);
            lemma_find_complete(t, i, h, kk, f);
        }
    }
}

// vacuity canaries (each MUST be reported as failed): the hypotheses of the lemmas above are satisfiable
proof fn canary_reach(t: &RawTableInner, i: int, h: u64, hs: Map<int, u64>)
    requires t.shape(), t.mirrored(), 0 <= i < t.nb(), t.ctrl@[i] < 0x80u8, t.f2(hs), t.reach(i, h), t.nb() >= Group::WIDTH,
    ensures false {}
proof fn canary_gap(t: &RawTableInner, index: int, lz: int, tz: int)
    requires t.shape(), t.mirrored(), t.nb() >= Group::WIDTH, 0 <= index < t.nb(), t.ctrl@[index] < 0x80u8, t.gap_witness(index, lz, tz),
    ensures false {}
proof fn canary_none(t: &RawTableInner, h: u64, kk: nat, f: spec_fn(usize) -> bool, hs: Map<int, u64>)
    requires t.shape(), t.mirrored(), t.f2(hs), t.none_witness(h as usize as int, kk, spec_tag(h), f),
    ensures false {}
