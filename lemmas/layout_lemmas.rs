// L7 layout containment, over calculate_layout_for's proved contract.
// Elements live below the control bytes: bucket i is [off - (i+1)*size, off - i*size).

// a power of two not larger than another one divides it, as masks: (a-1) is a sub-mask of (ca-1)
proof fn lemma_submask(x: usize, a: usize, ca: usize)
    requires spec_is_pow2(a), spec_is_pow2(ca), a <= ca, x & sub(ca, 1) == 0,
    ensures x & sub(a, 1) == 0,
{
    assert(a != 0 && (a & sub(a, 1)) == 0 && ca != 0 && (ca & sub(ca, 1)) == 0 && a <= ca && x & sub(ca, 1) == 0
        ==> x & sub(a, 1) == 0) by(bit_vector);
}

proof fn lemma_layout_containment(size: usize, align: usize, ctrl_align: usize, buckets: usize, off: usize, total: usize, i: int, j: int)
    requires
        // TableLayout::new: size is a multiple of the element alignment, ctrl_align = max(align, WIDTH)
        spec_is_pow2(align), spec_is_pow2(ctrl_align), align <= ctrl_align,
        size as int % align as int == 0,
        // calculate_layout_for's postcondition
        off as int >= size as int * buckets as int,
        off & sub(ctrl_align, 1) == 0,
        total as int == off as int + buckets as int + Group::WIDTH as int,
        0 <= i < j < buckets,
    ensures
        // bucket i lies inside [0, off), below the control bytes
        0 <= off as int - (i + 1) * size as int,
        off as int - i * size as int <= off as int,
        // buckets i < j do not overlap: j's range ends where or before i's begins
        off as int - j * size as int <= off as int - (i + 1) * size as int,
        // every element address is aligned for T
        (off as int - (i + 1) * size as int) % align as int == 0,
        // the control bytes, mirror group included, end exactly at the end of the allocation
        off as int + buckets as int + Group::WIDTH as int <= total as int,
{
    let s = size as int;
    let a = align as int;
    let n = buckets as int;
    assert((i + 1) * s <= n * s) by(nonlinear_arith) requires 0 <= i + 1 <= n, s >= 0;
    assert(s * n == n * s) by(nonlinear_arith);
    assert(i * s >= 0) by(nonlinear_arith) requires i >= 0, s >= 0;
    assert((i + 1) * s <= j * s) by(nonlinear_arith) requires i + 1 <= j, s >= 0;
    // off % align == 0
    lemma_submask(off, align, ctrl_align);
    let am: usize = sub(align, 1);
    assert(align >= 1);
    assert(am == align - 1);
    assert(spec_is_pow2((am + 1) as usize));
    lemma_mask_is_mod(off, am);
    assert(off as int % a == 0);
    // (i+1)*size % align == 0
    lemma_fundamental_div_mod(s, a);
    let q = s / a;
    assert(s == a * q);
    assert((i + 1) * s == a * ((i + 1) * q)) by(nonlinear_arith) requires s == a * q;
    lemma_mod_multiples_basic((i + 1) * q, a);
    assert(((i + 1) * s) % a == 0) by { assert(a * ((i + 1) * q) == ((i + 1) * q) * a) by(nonlinear_arith); }
    lemma_sub_mod_noop(off as int, (i + 1) * s, a);
    lemma_small_mod(0nat, a as nat);
}
