// L6 (C13, memory half): with at most m live elements and no explicit reserve, every growth step
// decided by reserve_rehash_inner's proved contract lands on a bucket count below a fixed multiple of
// m + 1; hence along ANY insert/remove history the bucket count stays <= max(initial, bound(m)).

pub open spec fn churn_bound(m: int) -> int {
    if 16 > 5 * (m + 1) { 16 } else { 5 * (m + 1) }
}

/// one growth step as the contract of reserve_rehash_inner describes it (additional == 1):
/// growth happens only when items + 1 > capacity / 2, to admissible_min(b', max(items + 1, capacity + 1))
proof fn lemma_churn_growth_step(mask: usize, items: usize, m: int, b2: usize, size: usize)
    requires
        mask < usize::MAX, items as int <= m, items < usize::MAX,
        items as int + 1 > spec_cap_of(mask) / 2,
        admissible_min(b2, spec_umax((items + 1) as usize, (spec_cap_of(mask) + 1) as usize), size),
    ensures
        b2 as int <= churn_bound(m),
{
    let cap = spec_cap_of(mask);
    let want = spec_umax((items + 1) as usize, (cap + 1) as usize) as int;
    // growth only when the table is more than half full: capacity < 2 (items + 1) <= 2 (m + 1)
    assert(cap <= 2 * items as int + 1);
    assert(want <= 2 * (m + 1));
    if b2 >= 32 {
        // minimality: half as many buckets would not hold `want`
        assert(spec_is_pow2(b2) && b2 >= 32 ==> b2 % 16 == 0) by(bit_vector);
        let h = (b2 / 2) as usize;
        assert(spec_cap_of((h - 1) as usize) < want);
        assert(spec_cap_of((h - 1) as usize) == (h as int / 8) * 7);
        assert((h as int / 8) * 8 == h as int);
        // h * 7 / 8 < 2 (m + 1)  ==>  b2 = 2 h < 32 (m + 1) / 7 < 5 (m + 1)
    } else {
        assert(spec_is_pow2(b2) && b2 >= 4 && b2 < 32 ==> b2 == 4 || b2 == 8 || b2 == 16) by(bit_vector);
    }
}

/// abstract table state for the history argument
pub struct ChurnSt {
    pub buckets: int,
    pub items: int,
}

/// one step of an insert/remove history with live size <= m (buckets either stay or grow per the contract)
pub open spec fn churn_step(s: ChurnSt, t: ChurnSt, m: int, size: usize) -> bool {
    &&& 0 <= t.items <= m
    &&& (t.buckets == s.buckets || (exists|mask: usize, items: usize| #[trigger] grows_to(mask, items, m, t.buckets, size) && mask as int + 1 == s.buckets))
}
pub open spec fn grows_to(mask: usize, items: usize, m: int, b2: int, size: usize) -> bool {
    &&& mask < usize::MAX && items as int <= m && items < usize::MAX
    &&& items as int + 1 > spec_cap_of(mask) / 2
    &&& 0 <= b2 <= usize::MAX && admissible_min(b2 as usize, spec_umax((items + 1) as usize, (spec_cap_of(mask) + 1) as usize), size)
}

/// the invariant of every history: buckets <= max(initial buckets, churn_bound(m))
proof fn lemma_churn_invariant(s: ChurnSt, t: ChurnSt, m: int, size: usize, b0: int)
    requires
        churn_step(s, t, m, size),
        s.buckets <= (if b0 > churn_bound(m) { b0 } else { churn_bound(m) }),
    ensures
        t.buckets <= (if b0 > churn_bound(m) { b0 } else { churn_bound(m) }),
{
    if t.buckets != s.buckets {
        let (mask, items) = choose|mask: usize, items: usize| #[trigger] grows_to(mask, items, m, t.buckets, size) && mask as int + 1 == s.buckets;
        lemma_churn_growth_step(mask, items, m, t.buckets as usize, size);
    }
}

// vacuity canary (MUST fail): the accounting hypothesis of unit grow is satisfiable with a loaded table
proof fn canary_grow_counts(t: &RawTableInner) requires t.counts_ok(), t.items > 10, t.growth_left > 3, ensures false {}
