// Lemmas for unit `ctrl`.

// the mirror index computed by set_ctrl: ((index - WIDTH) & mask) + WIDTH
proof fn lemma_index2(index: usize, mask: usize)
    requires
        mask >= 3, mask < 0x4000_0000_0000_0000,
        spec_is_pow2((mask + 1) as usize),
        index <= mask,
    ensures
        ({
            let i2 = ((index.wrapping_sub(Group::WIDTH)) & mask) + Group::WIDTH;
            let nb = mask as int + 1;
            &&& i2 < nb + Group::WIDTH
            &&& (nb >= Group::WIDTH && index < Group::WIDTH) ==> i2 == nb + index
            &&& (nb >= Group::WIDTH && index >= Group::WIDTH) ==> i2 == index
            &&& nb < Group::WIDTH ==> i2 == Group::WIDTH + index
        }),
{
    let w: usize = Group::WIDTH;
    assert(w == 16 || w == 8);
    let x: usize = index.wrapping_sub(w);
    if index >= w {
        assert(x == index - w);
        assert(x <= mask && (add(mask, 1) & mask) == 0 ==> (x & mask) == x) by(bit_vector);
    } else {
        // x = 2^64 - (w - index), written without wrap-around
        if w == 16 {
            assert(x == 0xFFFF_FFFF_FFFF_FFFFusize - (15usize - index));
            assert(index < 16 && x == 0xFFFF_FFFF_FFFF_FFFFusize - (15usize - index) && index <= mask && mask >= 3
                && mask < 0x4000_0000_0000_0000 && (add(mask, 1) & mask) == 0 ==> {
                &&& (mask >= 15 ==> (x & mask) == mask - 15 + index)
                &&& (mask < 15 ==> (x & mask) == index)
            }) by(bit_vector);
        } else {
            assert(x == 0xFFFF_FFFF_FFFF_FFFFusize - (7usize - index));
            assert(index < 8 && x == 0xFFFF_FFFF_FFFF_FFFFusize - (7usize - index) && index <= mask && mask >= 3
                && mask < 0x4000_0000_0000_0000 && (add(mask, 1) & mask) == 0 ==> {
                &&& (mask >= 7 ==> (x & mask) == mask - 7 + index)
                &&& (mask < 7 ==> (x & mask) == index)
            }) by(bit_vector);
        }
    }
    assert((add(mask, 1) & mask) == 0 <==> spec_is_pow2((mask + 1) as usize)) by {
        assert(mask < 0xFFFF_FFFF_FFFF_FFFF ==> add(mask, 1) == mask + 1);
        let m1: usize = (mask + 1) as usize;
        assert(sub(m1, 1) == mask);
        assert((m1 & mask) == (mask & m1)) by(bit_vector);
    }
    assert((x & mask) <= mask) by(bit_vector);
}

// erase: the group "before" starts inside the table
proof fn lemma_index_before(index: usize, mask: usize)
    requires
        mask >= 3, mask < 0x4000_0000_0000_0000,
        spec_is_pow2((mask + 1) as usize),
        index <= mask,
    ensures
        (index.wrapping_sub(Group::WIDTH) & mask) <= mask,
        (mask as int + 1 < Group::WIDTH) ==> (index.wrapping_sub(Group::WIDTH) & mask) == index,
{
    let x = index.wrapping_sub(Group::WIDTH);
    assert((x & mask) <= mask) by(bit_vector);
    lemma_index2(index, mask);
}

// for tables smaller than a group the two windows erase looks at coincide and contain padding
// EMPTY bytes, so leading_zeros + trailing_zeros < WIDTH
proof fn lemma_small_table_window(t: &RawTableInner, index: usize, before: Seq<bool>, after: Seq<bool>)
    requires
        t.shape(), t.mirrored(), index < t.nb(),
        before.len() == Group::WIDTH, after.len() == Group::WIDTH,
        t.nb() < Group::WIDTH ==> (forall|k: int| 0 <= k < Group::WIDTH ==> before[k] == (t.ctrl@[index + k] == 0xFFu8)),
        forall|k: int| 0 <= k < Group::WIDTH ==> after[k] == (t.ctrl@[index + k] == 0xFFu8),
    ensures
        t.nb() < Group::WIDTH ==> spec_lz(before) + spec_tz(after) < Group::WIDTH,
{
    if t.nb() < Group::WIDTH {
        let n = t.nb();
        let w = Group::WIDTH as int;
        // lane (n - index) is a padding byte: EMPTY
        let k = n - index;
        assert(0 < k && k < w);
        assert(t.ctrl@[index + k] == 0xFFu8);
        assert(after[k]);
        lemma_tz_bound(after, k);
        // lane w-1-index' ... : the byte at position w-1 (last padding byte) is lane (w-1-index)
        let k2 = w - 1 - index;
        assert(0 <= k2 && k2 < w);
        assert(t.ctrl@[index + k2] == 0xFFu8);
        assert(before[k2]);
        lemma_lz_bound(before, k2);
        // tz <= n - index, lz <= w - 1 - (w - 1 - index) = index  ==> sum <= n < w
    }
}

proof fn lemma_tz_bound(l: Seq<bool>, k: int)
    requires 0 <= k < l.len(), l[k],
    ensures spec_tz(l) <= k,
    decreases l.len(),
{
    if l.len() == 0 || l[0] {
    } else {
        let rest = l.subrange(1, l.len() as int);
        assert(rest[k - 1] == l[k]);
        lemma_tz_bound(rest, k - 1);
    }
}

proof fn lemma_lz_bound(l: Seq<bool>, k: int)
    requires 0 <= k < l.len(), l[k],
    ensures spec_lz(l) <= l.len() - 1 - k,
    decreases l.len(),
{
    if l.len() == 0 || l[l.len() - 1] {
    } else {
        let rest = l.subrange(0, l.len() - 1);
        assert(rest[k] == l[k]);
        lemma_lz_bound(rest, k);
    }
}

// reading the control array at position p in [0, nb + WIDTH) of a table with at least one group
// gives the byte of bucket p % nb (mirror invariant)
proof fn lemma_mirror_read(t: &RawTableInner, p: int)
    requires t.shape(), t.mirrored(), 0 <= p < t.nb() + Group::WIDTH,
    ensures t.nb() >= Group::WIDTH ==> t.ctrl@[p] == t.ctrl@[p % t.nb()],
{
    if t.nb() >= Group::WIDTH {
        let n = t.nb();
        if p < n {
            assert(p % n == p) by(nonlinear_arith) requires 0 <= p < n;
        } else {
            let j = p - n;
            assert(0 <= j < Group::WIDTH);
            assert(t.ctrl@[n + j] == t.ctrl@[j]);
            assert(p % n == j) by(nonlinear_arith) requires p == n + j, 0 <= j < n;
        }
    }
}
