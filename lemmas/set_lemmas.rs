// Lemmas for unit `set`.

// wf in the form the proofs use: membership in the set is membership at some position of the iteration order
proof fn lemma_enumerates<T>(a: &HashSet<T>)
    requires a.wf(),
    ensures forall|x: T| a.v@.contains(x) <==> (exists|k: int| 0 <= k < a.order@.len() && #[trigger] a.order@[k] == x),
{
    assert forall|x: T| a.v@.contains(x) <==> (exists|k: int| 0 <= k < a.order@.len() && #[trigger] a.order@[k] == x) by {
        if a.v@.contains(x) {
            assert(a.order@.contains(x));
            let k = choose|k: int| 0 <= k < a.order@.len() && a.order@[k] == x;
            assert(a.order@[k] == x);
        }
        if exists|k: int| 0 <= k < a.order@.len() && #[trigger] a.order@[k] == x {
            let k = choose|k: int| 0 <= k < a.order@.len() && #[trigger] a.order@[k] == x;
            assert(a.order@.contains(x));
        }
    }
}

// vacuity canaries (each MUST fail)
proof fn canary_set_wf<T>(a: &HashSet<T>, b: &HashSet<T>) requires a.wf(), b.wf(), a.v@.len() > 1, b.v@.len() > a.v@.len(), ensures false {}
proof fn canary_map_wf<K, V>(a: &HashMap<K, V>) requires a.wf(), a.m@.dom().len() > 1, ensures false {}
