// vacuity canaries for unit iterhash (each MUST fail)
proof fn canary_ih_wf(x: RawIterHashInner) requires x.wf(), x.tbl@.nb() >= Group::WIDTH, x.k@ > 0, ensures false {}
proof fn canary_ih_wf_small(x: RawIterHashInner) requires x.wf(), x.tbl@.nb() < Group::WIDTH, ensures false {}
