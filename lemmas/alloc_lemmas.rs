// Lemmas for unit alloc.
