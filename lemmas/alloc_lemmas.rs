// Lemmas for unit alloc.

// vacuity canary (MUST fail)
proof fn canary_alloc_layout(tl: TableLayout, b: usize) requires layout_ok(tl), tl.size == 3, spec_is_pow2(b), b >= 16, ensures false {}
proof fn canary_alloc_fresh(t: &RawTableInner) requires t.fresh(), t.bucket_mask >= 31, ensures false {}
proof fn canary_alloc_allocated(t: &RawTableInner, tl: TableLayout) requires t.allocated_with(tl), t.bucket_mask >= 15, ensures false {}
