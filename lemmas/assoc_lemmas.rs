// Lemmas of unit `assoc`: from buckets to keys (the mechanised part of L5).

proof fn lemma_sreach_gives_reach(t: &RawTableInner, i: int, h: u64)
    requires t.sreach(i, h),
    ensures t.reach(i, h),
{
    let k = choose|k: nat| #[trigger] t.sreach_at(i, h, k);
    assert forall|j: nat, tt: int| j < k && 0 <= tt < Group::WIDTH implies #[trigger] t.win(spec_pos(h as usize as int, t.nb(), j), tt) != 0xFFu8 by {
        assert(t.win(spec_pos(h as usize as int, t.nb(), j), tt) < 0x80u8);
    }
    assert(t.reach_at(i, h, k));
}

// what rehash_in_place and resize_inner establish (every FULL bucket placed) is the reachability invariant F2
// that insert and erase preserve (lemma_insert_keeps_f2, lemma_erase_keeps_f2) and that lookup needs
proof fn lemma_placed_gives_f2(t: &RawTableInner, hs: Map<int, u64>)
    requires
        t.shape(), t.all_placed(),
        // hs records, for every FULL bucket, the hash of the element it holds
        forall|i: int| 0 <= i < t.nb() && #[trigger] t.ctrl@[i] < 0x80u8 ==> hs.dom().contains(i) && hs[i] == elem_hash(t.elems@[i]),
    ensures t.f2(hs),
{
    assert forall|i: int| 0 <= i < t.nb() && #[trigger] t.ctrl@[i] < 0x80u8 implies
        hs.dom().contains(i) && t.ctrl@[i] == spec_tag(hs[i]) && t.reach(i, hs[i]) by {
        assert(t.placed(i));
        lemma_sreach_gives_reach(t, i, elem_hash(t.elems@[i]));
    }
}

// Lookup BY KEY.  `key_of` maps an element to its key; lawful Eq: the closure accepts exactly the buckets holding
// an element whose key is k; lawful Hash: such elements were stored under the hash h the lookup probes with.
// Then find_inner (through its proved postcondition) answers Some exactly when an element with key k is stored,
// and the bucket it returns holds such an element.
proof fn lemma_find_by_key(t: &RawTableInner, h: u64, f: spec_fn(usize) -> bool, r: Option<usize>, key_of: spec_fn(int) -> int, k: int, hs: Map<int, u64>)
    requires
        t.shape(), t.mirrored(), t.f2(hs),
        forall|i: int| 0 <= i < t.nb() && #[trigger] t.ctrl@[i] < 0x80u8 ==> (f(i as usize) <==> key_of(t.elems@[i]) == k),
        forall|i: int| 0 <= i < t.nb() && #[trigger] t.ctrl@[i] < 0x80u8 && key_of(t.elems@[i]) == k ==> hs[i] == h,
        // find_inner's postcondition
        r matches Some(i) ==> i < t.nb() && t.ctrl@[i as int] < 0x80u8 && f(i),
        r is None ==> exists|kk: nat| #[trigger] t.none_witness(h as usize as int, kk, spec_tag(h), f),
    ensures
        r is Some <==> exists|i: int| 0 <= i < t.nb() && #[trigger] t.ctrl@[i] < 0x80u8 && key_of(t.elems@[i]) == k,
        r matches Some(i) ==> key_of(t.elems@[i as int]) == k,
{
    lemma_lookup_decides(t, h, f, r, hs);
    if r is Some {
        let i = r.unwrap() as int;
        assert(t.ctrl@[i] < 0x80u8 && key_of(t.elems@[i]) == k);
    } else {
        if exists|i: int| 0 <= i < t.nb() && #[trigger] t.ctrl@[i] < 0x80u8 && key_of(t.elems@[i]) == k {
            let i = choose|i: int| 0 <= i < t.nb() && #[trigger] t.ctrl@[i] < 0x80u8 && key_of(t.elems@[i]) == k;
            assert(f(i as usize));
        }
    }
}

// vacuity canary (MUST fail)
proof fn canary_find_by_key(t: &RawTableInner, h: u64, f: spec_fn(usize) -> bool, key_of: spec_fn(int) -> int, k: int, hs: Map<int, u64>, i0: int)
    requires
        t.shape(), t.mirrored(), t.f2(hs), t.nb() >= Group::WIDTH,
        forall|i: int| 0 <= i < t.nb() && #[trigger] t.ctrl@[i] < 0x80u8 ==> (f(i as usize) <==> key_of(t.elems@[i]) == k),
        forall|i: int| 0 <= i < t.nb() && #[trigger] t.ctrl@[i] < 0x80u8 && key_of(t.elems@[i]) == k ==> hs[i] == h,
        0 <= i0 < t.nb(), t.ctrl@[i0] < 0x80u8, key_of(t.elems@[i0]) == k,
    ensures false {}
