// Lemmas for unit `iter`.

// x & !(WIDTH - 1) rounds x down to a multiple of the group width
proof fn lemma_round_down_width(x: usize)
    ensures
        (x & !((Group::WIDTH - 1) as usize)) <= x,
        (x & !((Group::WIDTH - 1) as usize)) as int % Group::WIDTH as int == 0,
{
    let m: usize = (@WIDTH@ - 1) as usize;
    assert((Group::WIDTH - 1) as usize == m);
    assert((x & !m) <= x) by(bit_vector);
    assert(m == (@WIDTH@ - 1) as usize ==> (x & !m) % @WIDTH@ == 0) by(bit_vector);
}

// vacuity canaries (each MUST be reported as failed): the hypotheses of the contracts are satisfiable
proof fn canary_wf<T>(x: RawIterRange<T>) requires x.wf() ensures false {}
proof fn canary_wf_small<T>(x: RawIterRange<T>) requires x.wf(), mem_nb() < Group::WIDTH ensures false {}
proof fn canary_rem<T>(x: RawIterRange<T>, j: int) requires x.wf(), x.rem(j), x.end > x.next_ctrl ensures false {}

proof fn lemma_count_zero(p: spec_fn(int) -> bool, hi: int)
    requires count_upto(p, hi) == 0,
    ensures forall|j: int| 0 <= j < hi ==> !#[trigger] p(j),
    decreases hi,
{
    if hi > 0 { lemma_count_zero(p, hi - 1); }
}

proof fn lemma_count_pos(p: spec_fn(int) -> bool, hi: int) -> (j: int)
    requires count_upto(p, hi) > 0,
    ensures 0 <= j < hi, p(j),
    decreases hi,
{
    if p(hi - 1) { hi - 1 } else { lemma_count_pos(p, hi - 1) }
}

proof fn lemma_count_ext(p: spec_fn(int) -> bool, q: spec_fn(int) -> bool, hi: int)
    requires forall|j: int| 0 <= j < hi ==> #[trigger] p(j) == q(j),
    ensures count_upto(p, hi) == count_upto(q, hi),
    decreases hi,
{
    if hi > 0 { lemma_count_ext(p, q, hi - 1); }
}

// removing one element of the counted set lowers the count by exactly one
proof fn lemma_count_remove(p: spec_fn(int) -> bool, q: spec_fn(int) -> bool, b: int, hi: int)
    requires 0 <= b < hi, p(b), forall|j: int| #[trigger] q(j) <==> (p(j) && j != b),
    ensures count_upto(q, hi) == count_upto(p, hi) - 1,
    decreases hi,
{
    if b == hi - 1 {
        lemma_count_ext(p, q, hi - 1);
    } else {
        lemma_count_remove(p, q, b, hi - 1);
    }
}

// L8: however the work is split, every bucket the root range would yield is yielded by exactly one leaf,
// and nothing else is yielded
proof fn lemma_split_tree<T>(t: &SplitTree<T>, j: int)
    requires t.valid(),
    ensures t.leaves_yielding(j) == (if t.root().rem(j) { 1nat } else { 0nat }),
    decreases t,
{
    match t {
        SplitTree::Leaf(_) => {}
        SplitTree::Node(r, a, b) => {
            lemma_split_tree(&**a, j);
            lemma_split_tree(&**b, j);
            assert(r.rem(j) <==> (a.root().rem(j) || b.root().rem(j)));
            assert(!(a.root().rem(j) && b.root().rem(j)));
        }
    }
}

// nothing satisfying p in [a, b): the ascending enumerations up to a and up to b coincide
proof fn lemma_enum_skip(p: spec_fn(int) -> bool, a: int, b: int)
    requires a <= b, forall|j: int| a <= j < b ==> !#[trigger] p(j),
    ensures enum_upto(p, b) == enum_upto(p, a),
    decreases b - a,
{
    if a < b { lemma_enum_skip(p, a, b - 1); }
}

// b is the next element after position a
proof fn lemma_enum_step(p: spec_fn(int) -> bool, a: int, b: int)
    requires 0 <= a <= b, p(b), forall|j: int| a <= j < b ==> !#[trigger] p(j),
    ensures enum_upto(p, b + 1) == enum_upto(p, a).push(b),
{
    lemma_enum_skip(p, a, b);
}

// everything the range will yield lies at or after its scan position
proof fn lemma_enum_prefix_empty(p: spec_fn(int) -> bool, cur: int, lo: int)
    requires forall|j: int| #[trigger] p(j) ==> j >= cur,
    ensures enum_upto(p, cur) == Seq::<int>::empty(),
    decreases cur,
{
    if cur > 0 { lemma_enum_prefix_empty(p, cur - 1, lo); } 
}

// a group-aligned position below a table of at least one group leaves room for a whole group
proof fn lemma_aligned_room(p: int, n: int)
    requires mem_ok(), n == mem_nb(), n >= Group::WIDTH, 0 <= p < n, p % (Group::WIDTH as int) == 0,
    ensures p + Group::WIDTH <= n, n % (Group::WIDTH as int) == 0,
{
    let nu = n as usize;
    assert(nu >= 8 && nu != 0 && (nu & sub(nu, 1)) == 0 ==> nu % 8 == 0) by(bit_vector);
    assert(nu >= 16 && nu != 0 && (nu & sub(nu, 1)) == 0 ==> nu % 16 == 0) by(bit_vector);
}

proof fn lemma_enum_len(p: spec_fn(int) -> bool, hi: int)
    ensures enum_upto(p, hi).len() == count_upto(p, hi),
    decreases hi,
{
    if hi > 0 { lemma_enum_len(p, hi - 1); }
}

proof fn lemma_enum_is_prefix(p: spec_fn(int) -> bool, lo: int, hi: int)
    requires lo <= hi,
    ensures
        enum_upto(p, lo).len() <= enum_upto(p, hi).len(),
        forall|k: int| 0 <= k < enum_upto(p, lo).len() ==> #[trigger] enum_upto(p, hi)[k] == enum_upto(p, lo)[k],
    decreases hi - lo,
{
    if lo < hi { lemma_enum_is_prefix(p, lo, hi - 1); }
}

// "take the smallest remaining member" is "take the next entry of the ascending enumeration": when everything
// below `cur` has been delivered, the smallest member b >= cur is entry number count_upto(p, cur).  This is
// what turns the contracts of RawIter::next / FullBucketsIndices::next (smallest remaining bucket, exactly it
// removed) into the sequence form that unit resize assumes for its `for` loop.
proof fn lemma_min_is_next_enum(p: spec_fn(int) -> bool, cur: int, b: int, hi: int)
    requires 0 <= cur <= b < hi, p(b), forall|j: int| cur <= j < b ==> !#[trigger] p(j),
    ensures
        count_upto(p, cur) < enum_upto(p, hi).len(),
        enum_upto(p, hi)[count_upto(p, cur) as int] == b,
        count_upto(p, b + 1) == count_upto(p, cur) + 1,
{
    lemma_enum_step(p, cur, b);
    lemma_enum_len(p, cur);
    lemma_enum_len(p, b + 1);
    lemma_enum_is_prefix(p, b + 1, hi);
    let k = count_upto(p, cur) as int;
    assert(enum_upto(p, b + 1)[k] == b);
}
