// Probe-sequence lemmas (C17): L1 and its connection to ProbeSeq::move_next, all table sizes.


pub open spec fn tri(k: int) -> int { k * (k + 1) / 2 }

// 2^k | a*b and a odd  ==>  2^k | b
proof fn lemma_odd_factor(k: nat, a: int, b: int)
    requires a % 2 == 1, a > 0, b >= 0, (a * b) % (pow2(k) as int) == 0,
    ensures b % (pow2(k) as int) == 0,
    decreases k,
{
    lemma_pow2_pos(k);
    if k == 0 {
        lemma2_to64();
        assert(pow2(0) == 1);
    } else {
        let p = pow2(k) as int;
        let q = pow2((k - 1) as nat) as int;
        lemma_pow2_unfold(k);
        assert(p == 2 * q);
        lemma_pow2_pos((k - 1) as nat);
        // 2 | a*b
        let ab = a * b;
        assert(ab % 2 == 0) by {
            lemma_fundamental_div_mod(ab, p);
            assert(ab == p * (ab / p));
            assert(ab == 2 * (q * (ab / p))) by(nonlinear_arith) requires ab == p * (ab / p), p == 2 * q;
        }
        // a odd => b even
        assert(b % 2 == 0) by {
            if b % 2 == 1 {
                let a1 = a / 2;
                let b1 = b / 2;
                assert(a == 2 * a1 + 1 && b == 2 * b1 + 1);
                assert(a * b == 2 * (2 * a1 * b1 + a1 + b1) + 1) by(nonlinear_arith) requires a == 2 * a1 + 1, b == 2 * b1 + 1;
            }
        }
        let b2 = b / 2;
        assert(b == 2 * b2);
        // 2^(k-1) | a * b2
        assert((a * b2) % q == 0) by {
            lemma_fundamental_div_mod(ab, p);
            let t = ab / p;
            assert(a * b == 2 * q * t) by(nonlinear_arith) requires ab == p * t, p == 2 * q, ab == a * b;
            assert(a * b2 == q * t) by(nonlinear_arith) requires a * b == 2 * q * t, b == 2 * b2;
            lemma_mod_multiples_basic(t, q);
            assert(q * t == t * q) by(nonlinear_arith);
        }
        lemma_odd_factor((k - 1) as nat, a, b2);
        // b2 = q * s  ==> b = p * s
        lemma_fundamental_div_mod(b2, q);
        let s = b2 / q;
        assert(b == p * s) by(nonlinear_arith) requires b == 2 * b2, b2 == q * s, p == 2 * q;
        lemma_mod_multiples_basic(s, p);
        assert(p * s == s * p) by(nonlinear_arith);
    }
}

// triangular numbers are pairwise different modulo 2^g below 2^g
proof fn lemma_tri_distinct(g: nat, i: int, j: int)
    requires 0 <= i < j < pow2(g),
    ensures tri(i) % (pow2(g) as int) != tri(j) % (pow2(g) as int),
{
    let G = pow2(g) as int;
    lemma_pow2_pos(g);
    if tri(i) % G == tri(j) % G {
        let d = tri(j) - tri(i);
        // G | d
        assert(d % G == 0) by {
            lemma_mod_equivalence(tri(j), tri(i), G);
        }
        // 2d = (j-i)(i+j+1)
        let a = j - i;
        let b = i + j + 1;
        lemma_consecutive_even(i);
        lemma_consecutive_even(j);
        assert(2 * tri(i) == i * (i + 1));
        assert(2 * tri(j) == j * (j + 1));
        assert(2 * d == a * b) by(nonlinear_arith) requires 2 * tri(i) == i * (i + 1), 2 * tri(j) == j * (j + 1), d == tri(j) - tri(i), a == j - i, b == i + j + 1;
        // 2G | a*b
        lemma_pow2_unfold(g + 1);
        let G2 = pow2(g + 1) as int;
        assert(G2 == 2 * G);
        lemma_fundamental_div_mod(d, G);
        let t = d / G;
        assert(a * b == G2 * t) by(nonlinear_arith) requires 2 * d == a * b, d == G * t, G2 == 2 * G;
        assert((a * b) % G2 == 0) by {
            lemma_mod_multiples_basic(t, G2);
            assert(G2 * t == t * G2) by(nonlinear_arith);
        }
        // a + b = 2j + 1 is odd: exactly one of a, b is odd
        assert(0 < a < G);
        assert(0 < b && b <= 2 * G - 2);
        if a % 2 == 1 {
            lemma_odd_factor(g + 1, a, b);
            // b is a positive multiple of 2G but b < 2G
            lemma_fundamental_div_mod(b, G2);
            assert(b / G2 >= 1) by(nonlinear_arith) requires b == G2 * (b / G2), b > 0, G2 > 0;
            assert(b >= G2) by(nonlinear_arith) requires b == G2 * (b / G2), b / G2 >= 1, G2 > 0;
            assert(false);
        } else {
            assert(b % 2 == 1);
            assert(b * a == a * b) by(nonlinear_arith);
            lemma_odd_factor(g + 1, b, a);
            lemma_fundamental_div_mod(a, G2);
            assert(a / G2 >= 1) by(nonlinear_arith) requires a == G2 * (a / G2), a > 0, G2 > 0;
            assert(a >= G2) by(nonlinear_arith) requires a == G2 * (a / G2), a / G2 >= 1, G2 > 0;
            assert(false);
        }
    }
}




// position after k calls of move_next from `start`, as move_next's contract defines it
pub open spec fn spec_pos(start: int, n: int, k: nat) -> int
    decreases k,
{
    if k == 0 { start % n } else { (spec_pos(start, n, (k - 1) as nat) + k * Group::WIDTH) % n }
}

proof fn lemma_consecutive_even(k: int)
    ensures (k * (k + 1)) % 2 == 0,
{
    if k % 2 == 0 {
        let m = k / 2;
        assert(k == 2 * m);
        assert(k * (k + 1) == 2 * (m * (k + 1))) by(nonlinear_arith) requires k == 2 * m;
    } else {
        let m = (k + 1) / 2;
        assert(k + 1 == 2 * m);
        assert(k * (k + 1) == 2 * (k * m)) by(nonlinear_arith) requires k + 1 == 2 * m;
    }
}

proof fn lemma_tri_step(k: int)
    requires k >= 1,
    ensures tri(k) == tri(k - 1) + k,
{
    assert(k * (k + 1) == (k - 1) * k + 2 * k) by(nonlinear_arith);
    lemma_consecutive_even(k - 1);
    lemma_consecutive_even(k);
}

proof fn lemma_pos_closed(start: int, n: int, k: nat)
    requires n > 0, start >= 0,
    ensures spec_pos(start, n, k) == (start + Group::WIDTH * tri(k as int)) % n,
    decreases k,
{
    if k == 0 {
        assert(0int * (0int + 1) == 0) by(nonlinear_arith);
        assert(tri(0) == 0);
    } else {
        lemma_pos_closed(start, n, (k - 1) as nat);
        lemma_tri_step(k as int);
        let a = start + Group::WIDTH * tri(k - 1);
        assert(Group::WIDTH * tri(k as int) == Group::WIDTH * tri(k - 1) + Group::WIDTH * k) by(nonlinear_arith) requires tri(k as int) == tri(k - 1) + k;
        assert(k * Group::WIDTH == Group::WIDTH * k) by(nonlinear_arith);
        lemma_add_mod_noop(a, k * Group::WIDTH, n);
        assert((a % n + (k * Group::WIDTH) % n) % n == (a + k * Group::WIDTH) % n);
        lemma_add_mod_noop(a % n, k * Group::WIDTH, n);
        lemma_mod_twice(a, n);
    }
}

// C17: the first G = n / WIDTH probe positions are pairwise different (every group visited once)
proof fn lemma_probe_distinct(g: nat, start: int, i: nat, j: nat)
    requires start >= 0, i < j, (j as int) < pow2(g),
    ensures
        spec_pos(start, Group::WIDTH * pow2(g), i) != spec_pos(start, Group::WIDTH * pow2(g), j),
{
    let G = pow2(g) as int;
    lemma_pow2_pos(g);
    let n = Group::WIDTH * G;
    assert(n > 0) by(nonlinear_arith) requires G > 0, n == Group::WIDTH * G, Group::WIDTH > 0;
    lemma_pos_closed(start, n, i);
    lemma_pos_closed(start, n, j);
    let ti = tri(i as int);
    let tj = tri(j as int);
    if (start + Group::WIDTH * ti) % n == (start + Group::WIDTH * tj) % n {
        lemma_mod_equivalence(start + Group::WIDTH * tj, start + Group::WIDTH * ti, n);
        let d = tj - ti;
        assert((start + Group::WIDTH * tj) - (start + Group::WIDTH * ti) == Group::WIDTH * d) by(nonlinear_arith) requires d == tj - ti;
        assert((Group::WIDTH * d) % n == 0);
        lemma_fundamental_div_mod(Group::WIDTH * d, n);
        let q = (Group::WIDTH * d) / n;
        assert(Group::WIDTH * d == Group::WIDTH * (G * q)) by(nonlinear_arith) requires Group::WIDTH * d == n * q, n == Group::WIDTH * G;
        assert(d == G * q) by(nonlinear_arith) requires Group::WIDTH * d == Group::WIDTH * (G * q), Group::WIDTH > 0;
        lemma_mod_multiples_basic(q, G);
        assert(G * q == q * G) by(nonlinear_arith);
        assert(d % G == 0);
        lemma_mod_equivalence(tj, ti, G);
        lemma_tri_distinct(g, i as int, j as int);
        assert(false);
    }
}

// every probe position is a whole number of groups away from the start
proof fn lemma_pos_aligned(g: nat, start: int, i: nat)
    requires start >= 0,
    ensures (spec_pos(start, Group::WIDTH * pow2(g), i) - start % (Group::WIDTH * pow2(g))) % (Group::WIDTH as int) == 0,
{
    let G = pow2(g) as int;
    lemma_pow2_pos(g);
    let n = Group::WIDTH * G;
    assert(n > 0) by(nonlinear_arith) requires G > 0, n == Group::WIDTH * G, Group::WIDTH > 0;
    lemma_pos_closed(start, n, i);
    let ti = tri(i as int);
    let x = start + Group::WIDTH * ti;
    lemma_fundamental_div_mod(x, n);
    lemma_fundamental_div_mod(start, n);
    let p = spec_pos(start, n, i);
    assert(p - start % n == Group::WIDTH * ti - n * (x / n) + n * (start / n));
    assert(p - start % n == Group::WIDTH * (ti - G * (x / n) + G * (start / n))) by(nonlinear_arith)
        requires p - start % n == Group::WIDTH * ti - n * (x / n) + n * (start / n), n == Group::WIDTH * G;
    lemma_mod_multiples_basic(ti - G * (x / n) + G * (start / n), Group::WIDTH as int);
    assert(Group::WIDTH * (ti - G * (x / n) + G * (start / n)) == (ti - G * (x / n) + G * (start / n)) * Group::WIDTH) by(nonlinear_arith);
}

// one call of ProbeSeq::move_next (its proved contract) advances the specification position
proof fn lemma_move_next_step(start: int, mask: usize, k: nat, pos: usize, stride: usize, pos2: usize)
    requires
        start >= 0,
        mask < 0x4000_0000_0000_0000, spec_is_pow2((mask + 1) as usize),
        pos as int == spec_pos(start, mask as int + 1, k),
        stride as int == k * Group::WIDTH,
        pos as int + stride as int + Group::WIDTH as int <= usize::MAX as int,
        // move_next's postcondition
        pos2 == ((pos + stride + Group::WIDTH) as usize) & mask,
    ensures
        pos2 as int == spec_pos(start, mask as int + 1, k + 1),
{
    lemma_mask_is_mod((pos + stride + Group::WIDTH) as usize, mask);
    assert(k * Group::WIDTH + Group::WIDTH == (k + 1) * Group::WIDTH) by(nonlinear_arith);
}

// ---- pigeonhole and covering: the first n/W probe windows cover every bucket ----
pub open spec fn range_set(g: int) -> Set<int> { set_int_range(0, g) }
proof fn lemma_range_set_finite(g: nat)
    ensures range_set(g as int).finite(), range_set(g as int).len() == g,
{
    lemma_int_range(0, g as int);
}

proof fn lemma_inj_surj(g: nat, f: spec_fn(int) -> int, m: int)
    requires
        forall|i: int| 0 <= i < g ==> 0 <= #[trigger] f(i) < g,
        forall|i: int, j: int| 0 <= i < j < g ==> #[trigger] f(i) != #[trigger] f(j),
        0 <= m < g,
    ensures exists|j: int| 0 <= j < g && #[trigger] f(j) == m,
{
    let s = range_set(g as int);
    lemma_range_set_finite(g);
    let img = s.map(f);
    assert forall|x: int, y: int| s.contains(x) && s.contains(y) && #[trigger] f(x) == #[trigger] f(y) implies x == y by {
        if x < y { assert(f(x) != f(y)); } else if y < x { assert(f(y) != f(x)); }
    }
    lemma_map_size(s, img, f);
    assert(img.subset_of(s)) by {
        assert forall|y: int| img.contains(y) implies s.contains(y) by {
            let x = choose|x: int| s.contains(x) && f(x) == y;
            assert(0 <= f(x) < g);
        }
    }
    lemma_subset_equality(img, s);
    assert(img.contains(m));
    let j = choose|j: int| s.contains(j) && f(j) == m;
    assert(0 <= j < g && f(j) == m);
}

proof fn lemma_pos_range(start: int, n: int, k: nat)
    requires n > 0,
    ensures 0 <= spec_pos(start, n, k) < n,
    decreases k,
{
    if k == 0 { lemma_mod_bound(start, n); } else { lemma_mod_bound(spec_pos(start, n, (k - 1) as nat) + k * Group::WIDTH, n); }
}


proof fn lemma_small_mod_zero(d: int, n: int)
    requires n > 0, -n < d < n, d % n == 0,
    ensures d == 0,
{
    lemma_fundamental_div_mod(d, n);
    let q = d / n;
    assert(d == n * q);
    assert(q == 0) by(nonlinear_arith) requires d == n * q, -n < d < n, n > 0;
}

// the offset of every probe position from the start is a whole number of groups, below n
proof fn lemma_offset_aligned(g: nat, start: int, i: nat)
    requires start >= 0, (i as int) < pow2(g),
    ensures
        ({
            let n = Group::WIDTH * pow2(g);
            let o = (spec_pos(start, n, i) - start % n) % n;
            &&& 0 <= o < n
            &&& o % (Group::WIDTH as int) == 0
        }),
{
    let G = pow2(g) as int;
    lemma_pow2_pos(g);
    let n = Group::WIDTH * G;
    assert(n > 0) by(nonlinear_arith) requires G > 0, n == Group::WIDTH * G;
    lemma_pos_aligned(g, start, i);
    let d = spec_pos(start, n, i) - start % n;
    lemma_mod_bound(d, n);
    lemma_mod_mod(d, Group::WIDTH as int, G);
}


// every bucket x lies in the window of some probe step j < G:  (x - pos_j) mod n < Group::WIDTH
proof fn lemma_probe_covers(g: nat, start: int, x: int) -> (j: nat)
    requires start >= 0, 0 <= x < Group::WIDTH * pow2(g),
    ensures (j as int) < pow2(g), 0 <= (x - spec_pos(start, Group::WIDTH * pow2(g), j)) % (Group::WIDTH * pow2(g)) < Group::WIDTH,
{
    let G = pow2(g) as int;
    lemma_pow2_pos(g);
    let n = Group::WIDTH * G;
    assert(n > 0 && n >= Group::WIDTH) by(nonlinear_arith) requires G > 0, n == Group::WIDTH * G;
    let s0 = start % n;
    lemma_mod_bound(start, n);
    let f = |j: int| ((spec_pos(start, n, j as nat) - s0) % n) / (Group::WIDTH as int);
    assert forall|i: int| 0 <= i < G implies 0 <= #[trigger] f(i) < G by {
        lemma_offset_aligned(g, start, i as nat);
        let o = (spec_pos(start, n, i as nat) - s0) % n;
        assert(0 <= o / (Group::WIDTH as int) < G) by(nonlinear_arith) requires 0 <= o < n, n == Group::WIDTH * G, G > 0;
    }
    assert forall|i: int, j: int| 0 <= i < j < G implies #[trigger] f(i) != #[trigger] f(j) by {
        lemma_probe_distinct(g, start, i as nat, j as nat);
        lemma_pos_range(start, n, i as nat);
        lemma_pos_range(start, n, j as nat);
        lemma_offset_aligned(g, start, i as nat);
        lemma_offset_aligned(g, start, j as nat);
        let pi = spec_pos(start, n, i as nat);
        let pj = spec_pos(start, n, j as nat);
        let oi = (pi - s0) % n;
        let oj = (pj - s0) % n;
        if oi / (Group::WIDTH as int) == oj / (Group::WIDTH as int) {
            lemma_fundamental_div_mod(oi, Group::WIDTH as int);
            lemma_fundamental_div_mod(oj, Group::WIDTH as int);
            assert(oi == oj);
            lemma_mod_equivalence(pi - s0, pj - s0, n);
            assert(((pi - s0) - (pj - s0)) % n == 0);
            lemma_small_mod_zero(pi - pj, n);
            assert(false);
        }
    }
    lemma_mod_bound(x - s0, n);
    let ox = (x - s0) % n;
    let m = ox / (Group::WIDTH as int);
    assert(0 <= m < G) by(nonlinear_arith) requires 0 <= ox < n, n == Group::WIDTH * G, m == ox / (Group::WIDTH as int), G > 0;
    lemma_inj_surj(G as nat, f, m);
    let jj = choose|j: int| 0 <= j < G && #[trigger] f(j) == m;
    let pj = spec_pos(start, n, jj as nat);
    lemma_offset_aligned(g, start, jj as nat);
    let oj = (pj - s0) % n;
    lemma_fundamental_div_mod(oj, Group::WIDTH as int);
    lemma_fundamental_div_mod(ox, Group::WIDTH as int);
    let r = ox % (Group::WIDTH as int);
    lemma_mod_bound(ox, Group::WIDTH as int);
    assert(oj == (Group::WIDTH as int) * m);
    assert(ox == (Group::WIDTH as int) * m + r);
    // (x - pj) % n == ((x - s0) - (pj - s0)) % n == (ox - oj) % n == r
    lemma_sub_mod_noop(x - s0, pj - s0, n);
    assert((x - s0) - (pj - s0) == x - pj);
    lemma_small_mod(r as nat, n as nat);
    jj as nat
}
