// Lemmas behind find_insert_slot's reachability postcondition (units ctrl and rehash).
// ((p + b) % n - p) % n == b: bucket (p + b) % n sits at offset b of the window that starts at p
proof fn lemma_window_offset(p: int, b: int, n: int)
    requires 0 <= p < n, 0 <= b < n,
    ensures ((p + b) % n - p) % n == b,
{
    lemma_small_mod(b as nat, n as nat);
    if p + b < n {
        lemma_small_mod((p + b) as nat, n as nat);
    } else {
        let s = p + b - n;
        lemma_small_mod(s as nat, n as nat);
        lemma_mod_add_multiples_vanish(s, n);
        assert((p + b) % n == s);
        lemma_mod_add_multiples_vanish(b - n, n);
        assert((b - n) % n == b);
    }
}

// what find_insert_slot establishes at the point where it returns from window k: the bucket it found in
// that window (any bucket at all for tables smaller than a group) is reachable for the hash it probed with
proof fn lemma_slot_reach(t: &RawTableInner, h: u64, k: nat, g: nat, pos: int, b: int, idx: int, i: int)
    requires
        t.shape(),
        t.nb() >= Group::WIDTH ==> t.nb() == Group::WIDTH * pow2(g) && (k as int) < pow2(g),
        t.nb() < Group::WIDTH ==> k == 0,
        pos == spec_pos(h as usize as int, t.nb(), k), 0 <= pos < t.nb(),
        0 <= b < Group::WIDTH, idx == (pos + b) % t.nb(),
        forall|j: nat, tt: int| j < k && 0 <= tt < Group::WIDTH ==> #[trigger] t.win(spec_pos(h as usize as int, t.nb(), j), tt) < 0x80u8,
        0 <= i < t.nb(), t.nb() >= Group::WIDTH ==> i == idx,
    ensures
        t.reach_at(i, h, k), t.sreach_at(i, h, k),
{
    let n = t.nb();
    lemma_mod_bound(i - pos, n);
    if n >= Group::WIDTH {
        lemma_window_offset(pos, b, n);
        assert(n / (Group::WIDTH as int) == pow2(g)) by(nonlinear_arith) requires n == Group::WIDTH * pow2(g), Group::WIDTH > 0;
    }
}

