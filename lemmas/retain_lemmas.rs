// Lemmas for unit `retain`.
proof fn lemma_full_prefix(c: Seq<u8>, hi: int, k: int)
    ensures full_upto(c, hi).subrange(0, 0) =~= Seq::<int>::empty(),
{ }

// there are as many entries in the enumeration of FULL buckets as count_upto counts, at most hi
proof fn lemma_full_upto_len(c: Seq<u8>, hi: int)
    ensures full_upto(c, hi).len() == count_upto(full_pred(c), hi), full_upto(c, hi).len() <= (if hi > 0 { hi } else { 0 }),
    decreases hi,
{
    if hi > 0 { lemma_full_upto_len(c, hi - 1); }
}

// vacuity: the precondition of RawExtractIf::next with an accepted element still to come is satisfiable
proof fn canary_extract_if_pre<T>(e: &RawExtractIf<T>)
    requires e.wf(), e.iter.pos@ < e.iter.s@.len(), e.table.table.items > 0,
    ensures false {}
