// Lemmas for unit `rehash`.

// Writing ANY byte over a special (EMPTY / DELETED) bucket keeps every strong-reachability certificate:
// the windows a certificate passed through are entirely FULL, so they contain neither the bucket nor its mirror.
proof fn lemma_special_write_keeps_sreach(t: &RawTableInner, t2: &RawTableInner, idx: int, c: u8, i: int, h: u64)
    requires
        t.shape(), t.mirrored(), t2.shape(), t2.bucket_mask == t.bucket_mask,
        0 <= idx < t.nb(), t.ctrl@[idx] >= 0x80u8,
        t2.ctrl@ == t.ctrl@.update(idx, c).update(t.mirror_index(idx), c),
        t.sreach(i, h),
    ensures
        t2.sreach(i, h),
{
    let k = choose|k: nat| #[trigger] t.sreach_at(i, h, k);
    let n = t.nb();
    let start = h as usize as int;
    assert(t.ctrl@[t.mirror_index(idx)] == t.ctrl@[idx]);
    assert forall|j: nat, tt: int| j < k && 0 <= tt < Group::WIDTH implies #[trigger] t2.win(spec_pos(start, n, j), tt) < 0x80u8 by {
        lemma_pos_range(start, n, j);
        assert(t.win(spec_pos(start, n, j), tt) < 0x80u8);
    }
    assert(t2.sreach_at(i, h, k));
}

// a < n, n a multiple of w: the group a / w of a starts at a multiple of w and ends within n
proof fn lemma_group_bounds(a: int, w: int, n: int)
    requires 0 <= a < n, w > 0, n % w == 0,
    ensures (a / w) * w <= a < (a / w) * w + w, (a / w) * w + w <= n,
{
    lemma_fundamental_div_mod(a, w);
    lemma_fundamental_div_mod(n, w);
    assert(a == w * (a / w) + a % w);
    assert(n == w * (n / w));
    lemma_mod_bound(a, w);
    assert(a / w < n / w) by(nonlinear_arith) requires a < n, a == w * (a / w) + a % w, n == w * (n / w), 0 <= a % w < w, w > 0;
    assert((a / w) * w + w <= n) by(nonlinear_arith) requires a / w + 1 <= n / w, n == w * (n / w), w > 0;
    assert((a / w) * w == w * (a / w)) by(nonlinear_arith);
}

// (x - p) % n for 0 <= x, p < n, without the modulo
proof fn lemma_sub_mod(x: int, p: int, n: int)
    requires 0 <= x < n, 0 <= p < n,
    ensures (x - p) % n == (if x >= p { x - p } else { x - p + n }),
{
    if x >= p {
        lemma_small_mod((x - p) as nat, n as nat);
    } else {
        lemma_small_mod((x - p + n) as nat, n as nat);
        lemma_mod_add_multiples_vanish(x - p, n);
    }
}

// is_in_same_group's arithmetic: two buckets in the same W-group relative to the probe start lie in the
// same probe window -- if new_i is in window k of h, so is i
proof fn lemma_same_group_sreach(t: &RawTableInner, i: int, new_i: int, h: u64, k: nat)
    requires
        t.shape(), 0 <= i < t.nb(), 0 <= new_i < t.nb(),
        t.sreach_at(new_i, h, k),
        t.rel_group(i, h) == t.rel_group(new_i, h),
    ensures
        t.sreach_at(i, h, k),
{
    let n = t.nb();
    let w = Group::WIDTH as int;
    let start = h as usize as int;
    let p0 = start % n;
    let pk = spec_pos(start, n, k);
    lemma_pos_range(start, n, k);
    lemma_mod_bound(i - pk, n);
    if n >= w {
        let g = lemma_groups(t);
        lemma_mod_multiples_basic(pow2(g) as int, w);
        assert(n == pow2(g) * w) by(nonlinear_arith) requires n == w * pow2(g);
        assert(n % w == 0);
        lemma_mod_bound(start, n);
        // (pk - p0) % n is a whole number of groups
        assert(n / w == pow2(g)) by(nonlinear_arith) requires n == w * pow2(g), w > 0;
        lemma_offset_aligned(g, start, k);
        let gk = (pk - p0) % n;
        assert(gk % w == 0);
        lemma_mod_bound(pk - p0, n);
        let a = (new_i - p0) % n;
        let b = (i - p0) % n;
        lemma_mod_bound(new_i - p0, n);
        lemma_mod_bound(i - p0, n);
        // (new_i - pk) % n == (a - gk) % n, in [0, w)
        lemma_sub_mod_noop(new_i - p0, pk - p0, n);
        lemma_sub_mod_noop(i - p0, pk - p0, n);
        assert((new_i - p0) - (pk - p0) == new_i - pk);
        assert((i - p0) - (pk - p0) == i - pk);
        let r = (new_i - pk) % n;
        assert(r == (a - gk) % n);
        assert(0 <= r < w);
        lemma_group_bounds(a, w, n);
        lemma_group_bounds(b, w, n);
        lemma_group_bounds(gk, w, n);
        // a lies in the group that starts at gk
        lemma_sub_mod(a, gk, n);
        if a < gk {
            // r = a - gk + n < w would need a > gk + ... impossible: gk + w <= n and a >= 0
            assert(a - gk + n < w);
            assert(false);
        }
        assert(gk <= a < gk + w);
        lemma_fundamental_div_mod(gk, w);
        let q = gk / w;
        assert(gk == w * q);
        assert(a / w == q) by(nonlinear_arith) requires w * q <= a < w * q + w, w > 0;
        assert(b / w == q);
        assert((b / w) * w == gk) by(nonlinear_arith) requires b / w == q, gk == w * q;
        assert(gk <= b < gk + w);
        lemma_sub_mod(b, gk, n);
        assert((i - pk) % n == b - gk);
    }
}

proof fn lemma_tag_full(hash: u64)
    ensures spec_tag(hash) < 0x80u8,
{
    assert(((hash >> 57) as u8) < 0x80u8) by(bit_vector);
}

proof fn lemma_count_ext(p: spec_fn(int) -> bool, q: spec_fn(int) -> bool, hi: int)
    requires forall|j: int| 0 <= j < hi ==> #[trigger] p(j) == q(j),
    ensures count_upto(p, hi) == count_upto(q, hi),
    decreases hi,
{
    if hi > 0 { lemma_count_ext(p, q, hi - 1); }
}

// removing one element of the counted set lowers the count by exactly one
proof fn lemma_count_remove(p: spec_fn(int) -> bool, q: spec_fn(int) -> bool, b: int, hi: int)
    requires 0 <= b < hi, p(b), !q(b), forall|j: int| 0 <= j < hi && j != b ==> #[trigger] q(j) == p(j),
    ensures count_upto(q, hi) == count_upto(p, hi) - 1,
    decreases hi,
{
    if b == hi - 1 {
        lemma_count_ext(p, q, hi - 1);
    } else {
        lemma_count_remove(p, q, b, hi - 1);
    }
}

// p and q agree except at a and b, where the number of members is the same: equal counts
proof fn lemma_count_two(p: spec_fn(int) -> bool, q: spec_fn(int) -> bool, a: int, b: int, hi: int)
    requires
        0 <= a < hi, 0 <= b < hi, a != b,
        forall|j: int| 0 <= j < hi && j != a && j != b ==> #[trigger] q(j) == p(j),
        (if p(a) { 1int } else { 0 }) + (if p(b) { 1int } else { 0 }) == (if q(a) { 1int } else { 0 }) + (if q(b) { 1int } else { 0 }),
    ensures count_upto(q, hi) == count_upto(p, hi),
{
    // route through the predicate that agrees with q at a and with p elsewhere
    let lo = if a < b { a } else { b };
    let up = if a < b { b } else { a };
    lemma_count_split(p, q, lo, up, hi);
}

// count over [0, hi) when p, q differ only at lo < up
proof fn lemma_count_split(p: spec_fn(int) -> bool, q: spec_fn(int) -> bool, lo: int, up: int, hi: int)
    requires
        0 <= lo < up < hi,
        forall|j: int| 0 <= j < hi && j != lo && j != up ==> #[trigger] q(j) == p(j),
    ensures
        count_upto(q, hi) - count_upto(p, hi)
            == (if q(lo) { 1int } else { 0 }) + (if q(up) { 1int } else { 0 }) - (if p(lo) { 1int } else { 0 }) - (if p(up) { 1int } else { 0 }),
    decreases hi,
{
    if up == hi - 1 {
        lemma_count_one(p, q, lo, hi - 1);
    } else {
        lemma_count_split(p, q, lo, up, hi - 1);
    }
}

proof fn lemma_count_one(p: spec_fn(int) -> bool, q: spec_fn(int) -> bool, b: int, hi: int)
    requires 0 <= b < hi, forall|j: int| 0 <= j < hi && j != b ==> #[trigger] q(j) == p(j),
    ensures count_upto(q, hi) - count_upto(p, hi) == (if q(b) { 1int } else { 0 }) - (if p(b) { 1int } else { 0 }),
    decreases hi,
{
    if b == hi - 1 {
        lemma_count_ext(p, q, hi - 1);
    } else {
        lemma_count_one(p, q, b, hi - 1);
    }
}

// (x.wrapping_sub(p) & mask) is (x - p) mod n for a power-of-two n = mask + 1
proof fn lemma_wrapping_rel(x: usize, p: usize, mask: usize)
    requires mask >= 3, mask < 0x4000_0000_0000_0000, spec_is_pow2((mask + 1) as usize), x <= mask, p <= mask,
    ensures (x.wrapping_sub(p) & mask) as int == (x as int - p as int) % (mask as int + 1),
{
    let n = mask as int + 1;
    let xw = x.wrapping_sub(p);
    lemma_mask_is_mod(xw, mask);
    if x >= p {
        assert(xw == x - p);
    } else {
        assert(xw as int == x as int - p as int + 0x1_0000_0000_0000_0000);
        let k = lemma_pow2_exponent((mask + 1) as usize);
        lemma2_to64();
        lemma_pow2_adds(k, (64 - k) as nat);
        assert(pow2(64) == 0x1_0000_0000_0000_0000);
        let q = pow2((64 - k) as nat) as int;
        assert(0x1_0000_0000_0000_0000 == n * q) by(nonlinear_arith) requires pow2(64) == pow2(k) * pow2((64 - k) as nat), n == pow2(k), q == pow2((64 - k) as nat), pow2(64) == 0x1_0000_0000_0000_0000;
        lemma_mod_multiples_vanish(q, x as int - p as int, n);
    }
}

// strong reachability depends on the control bytes only
proof fn lemma_sreach_same_ctrl(ta: &RawTableInner, tb: &RawTableInner, i: int, h: u64)
    requires ta.ctrl@ == tb.ctrl@, ta.bucket_mask == tb.bucket_mask, ta.sreach(i, h),
    ensures tb.sreach(i, h),
{
    let k = choose|k: nat| #[trigger] ta.sreach_at(i, h, k);
    assert forall|j: nat, t: int| j < k && 0 <= t < Group::WIDTH implies #[trigger] tb.win(spec_pos(h as usize as int, tb.nb(), j), t) < 0x80u8 by {
        assert(ta.win(spec_pos(h as usize as int, ta.nb(), j), t) < 0x80u8);
    }
    assert(tb.sreach_at(i, h, k));
}

// vacuity canaries (each MUST be reported as failed)
proof fn canary_placed(t: &RawTableInner, j: int)
    requires t.shape(), t.mirrored(), t.all_placed(), 0 <= j < t.nb(), t.ctrl@[j] < 0x80u8, t.nb() >= Group::WIDTH, t.elems@.len() == t.nb(),
    ensures false {}
proof fn canary_same_group(t: &RawTableInner, i: int, new_i: int, h: u64, k: nat)
    requires t.shape(), 0 <= i < t.nb(), 0 <= new_i < t.nb(), i != new_i, t.sreach_at(new_i, h, k), t.rel_group(i, h) == t.rel_group(new_i, h), t.nb() >= Group::WIDTH, k > 0,
    ensures false {}
