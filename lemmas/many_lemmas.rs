// Lemmas for unit many.
