// Lemmas for unit serde.

// vacuity canary (MUST fail): an input with entries that fails part-way is a possible MapAccess
proof fn canary_serde_input<'de, K, V, M: MapAccess<'de, K, V>>(m: &M) requires m.pos() == 0, m.entries().len() > 2, m.fail_at() == 1, ensures false {}
