// Lemmas for unit serde.
