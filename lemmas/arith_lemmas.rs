// Lemmas for unit `arith` (proof-only).

proof fn lemma_npot_cap_one(cap: usize, adjusted_cap: usize, b: usize)
    requires
        cap >= 15,
        cap as int * 8 <= usize::MAX as int,
        adjusted_cap as int == (cap as int * 8) / 7,
        spec_is_pow2(b),
        b >= adjusted_cap,
        (b / 2) < adjusted_cap,
    ensures
        b >= 32,
        cap as int <= spec_cap_of((b - 1) as usize),
        spec_cap_of((b - 1) as usize) < b as int,
        spec_cap_of((b / 2 - 1) as usize) < cap as int,
{
    // a power of two >= 17 is >= 32 and a multiple of 16
    assert(spec_is_pow2(b) && b >= 17 ==> b >= 32 && b % 16 == 0) by(bit_vector);
}

proof fn lemma_npot_cap(cap: usize, adjusted_cap: usize)
    requires
        cap >= 15,
        cap as int * 8 <= usize::MAX as int,
        adjusted_cap as int == (cap as int * 8) / 7,
    ensures
        adjusted_cap as int <= 0x8000_0000_0000_0000,
        adjusted_cap >= 17,
        // for every power of two b >= adjusted_cap with b/2 < adjusted_cap: the C17 clauses
        forall|b: usize| #![trigger spec_is_pow2(b)]
            spec_is_pow2(b) && b >= adjusted_cap && (b / 2) < adjusted_cap ==> {
                &&& b >= 32
                &&& cap as int <= spec_cap_of((b - 1) as usize)
                &&& spec_cap_of((b - 1) as usize) < b as int
                &&& spec_cap_of((b / 2 - 1) as usize) < cap as int
            },
{
    assert forall|b: usize| #![trigger spec_is_pow2(b)]
        spec_is_pow2(b) && b >= adjusted_cap && (b / 2) < adjusted_cap implies {
            &&& b >= 32
            &&& cap as int <= spec_cap_of((b - 1) as usize)
            &&& spec_cap_of((b - 1) as usize) < b as int
            &&& spec_cap_of((b / 2 - 1) as usize) < cap as int
        } by {
        lemma_npot_cap_one(cap, adjusted_cap, b);
    }
}

proof fn lemma_pow2_bounds(a: usize)
    requires spec_is_pow2(a),
    ensures a >= 1, a <= 0x8000_0000_0000_0000,
{
    assert(spec_is_pow2(a) ==> a >= 1 && a <= 0x8000_0000_0000_0000) by(bit_vector);
}

// x & !(align-1) rounds x down to an aligned value, losing less than align
proof fn lemma_round_down(x: usize, align: usize)
    requires
        spec_is_pow2(align),
    ensures
        (x & !sub(align, 1)) <= x,
        x - (x & !sub(align, 1)) <= align - 1,
        (x & !sub(align, 1)) & sub(align, 1) == 0,
{
    assert(spec_is_pow2(align) ==> (x & !sub(align, 1)) <= x && x - (x & !sub(align, 1)) <= sub(align, 1)
        && (x & !sub(align, 1)) & sub(align, 1) == 0) by(bit_vector);
}
