// x & mask == x % (mask + 1) for power-of-two sizes (via vstd low_bits_mask lemmas)
proof fn lemma_pow2_exponent(x: usize) -> (k: nat)
    requires spec_is_pow2(x),
    ensures k < 64, x as int == pow2(k) as int,
{
    let xx = x as u64;
    assert(xx != 0 && (xx & sub(xx, 1)) == 0 ==> exists|s: u64| s < 64 && xx == (1u64 << s)) by {
        assert(xx != 0 && (xx & sub(xx, 1)) == 0 ==> (
            xx == 1u64<<0 || xx == 1u64<<1 || xx == 1u64<<2 || xx == 1u64<<3 || xx == 1u64<<4 || xx == 1u64<<5 || xx == 1u64<<6 || xx == 1u64<<7 ||
            xx == 1u64<<8 || xx == 1u64<<9 || xx == 1u64<<10 || xx == 1u64<<11 || xx == 1u64<<12 || xx == 1u64<<13 || xx == 1u64<<14 || xx == 1u64<<15 ||
            xx == 1u64<<16 || xx == 1u64<<17 || xx == 1u64<<18 || xx == 1u64<<19 || xx == 1u64<<20 || xx == 1u64<<21 || xx == 1u64<<22 || xx == 1u64<<23 ||
            xx == 1u64<<24 || xx == 1u64<<25 || xx == 1u64<<26 || xx == 1u64<<27 || xx == 1u64<<28 || xx == 1u64<<29 || xx == 1u64<<30 || xx == 1u64<<31 ||
            xx == 1u64<<32 || xx == 1u64<<33 || xx == 1u64<<34 || xx == 1u64<<35 || xx == 1u64<<36 || xx == 1u64<<37 || xx == 1u64<<38 || xx == 1u64<<39 ||
            xx == 1u64<<40 || xx == 1u64<<41 || xx == 1u64<<42 || xx == 1u64<<43 || xx == 1u64<<44 || xx == 1u64<<45 || xx == 1u64<<46 || xx == 1u64<<47 ||
            xx == 1u64<<48 || xx == 1u64<<49 || xx == 1u64<<50 || xx == 1u64<<51 || xx == 1u64<<52 || xx == 1u64<<53 || xx == 1u64<<54 || xx == 1u64<<55 ||
            xx == 1u64<<56 || xx == 1u64<<57 || xx == 1u64<<58 || xx == 1u64<<59 || xx == 1u64<<60 || xx == 1u64<<61 || xx == 1u64<<62 || xx == 1u64<<63)) by(bit_vector);
    }
    assert(xx != 0 && (xx & sub(xx, 1)) == 0);
    let s = choose|s: u64| s < 64 && xx == (1u64 << s);
    lemma_u64_pow2_no_overflow(s as nat);
    assert(1 * pow2(s as nat) <= u64::MAX);
    lemma_u64_shl_is_mul(1, s);
    s as nat
}

proof fn lemma_mask_is_mod(x: usize, mask: usize)
    requires mask < usize::MAX, spec_is_pow2((mask + 1) as usize),
    ensures (x & mask) as int == (x as int) % (mask as int + 1),
{
    let k = lemma_pow2_exponent((mask + 1) as usize);
    lemma_u64_low_bits_mask_is_mod(x as u64, k);
    assert(low_bits_mask(k) == pow2(k) - 1);
    assert((x & mask) == ((x as u64) & (mask as u64)) as usize);
}

