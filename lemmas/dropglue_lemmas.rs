// Lemmas for unit dropglue.
