// Lemmas for unit `pardrain`.
// what has been handed out (everything below cur) followed by what is left is the whole enumeration
proof fn lemma_enum_split(p: spec_fn(int) -> bool, q: spec_fn(int) -> bool, cur: int, hi: int)
    requires 0 <= cur <= hi, forall|j: int| #[trigger] q(j) <==> (p(j) && j >= cur),
    ensures enum_upto(p, cur) + enum_upto(q, hi) =~= enum_upto(p, hi),
    decreases hi - cur,
{
    if cur == hi {
        lemma_enum_prefix_empty(q, hi, 0);
    } else {
        lemma_enum_split(p, q, cur, hi - 1);
        if p(hi - 1) {
            assert(q(hi - 1));
            assert(enum_upto(p, cur) + enum_upto(q, hi - 1).push(hi - 1) =~= (enum_upto(p, cur) + enum_upto(q, hi - 1)).push(hi - 1));
        } else {
            assert(!q(hi - 1));
        }
    }
}
