// Lemmas for unit `resize`.

proof fn lemma_count_none(p: spec_fn(int) -> bool, hi: int)
    requires forall|j: int| 0 <= j < hi ==> !#[trigger] p(j),
    ensures count_upto(p, hi) == 0,
    decreases hi,
{
    if hi > 0 { lemma_count_none(p, hi - 1); }
}

proof fn lemma_count_le(p: spec_fn(int) -> bool, hi: int)
    ensures count_upto(p, hi) <= (if hi > 0 { hi } else { 0 }),
    decreases hi,
{
    if hi > 0 { lemma_count_le(p, hi - 1); }
}

// fewer members than positions: some position is not a member
proof fn lemma_count_lt_exists(p: spec_fn(int) -> bool, hi: int) -> (j: int)
    requires count_upto(p, hi) < hi,
    ensures 0 <= j < hi, !p(j),
    decreases hi,
{
    if hi <= 0 {
        0
    } else if !p(hi - 1) {
        hi - 1
    } else {
        lemma_count_lt_exists(p, hi - 1)
    }
}

// the capacity of a table is smaller than its bucket count
proof fn lemma_cap_lt(mask: usize)
    requires mask >= 3,
    ensures spec_cap_of(mask) < mask as int + 1,
{
    if mask >= 8 {
        let n = mask as int + 1;
        assert((n / 8) * 7 < n) by(nonlinear_arith) requires n >= 8;
    }
}

// the enumeration lists members of p below hi, and as many as count_upto counts
proof fn lemma_enum_members(p: spec_fn(int) -> bool, hi: int)
    ensures
        enum_upto(p, hi).len() == count_upto(p, hi),
        forall|k: int| 0 <= k < enum_upto(p, hi).len() ==> 0 <= #[trigger] enum_upto(p, hi)[k] < hi && p(enum_upto(p, hi)[k]),
    decreases hi,
{
    if hi > 0 { lemma_enum_members(p, hi - 1); }
}

proof fn lemma_seq_count_prefix(s: Seq<int>, x: int, k: int, q: spec_fn(int) -> bool)
    requires 0 <= k <= s.len(),
    ensures seq_count(s.push(x), k, q) == seq_count(s, k, q),
    decreases k,
{
    if k > 0 {
        lemma_seq_count_prefix(s, x, k - 1, q);
        assert(s.push(x)[k - 1] == s[k - 1]);
    }
}

// counting q over the enumeration of p is counting p && q
proof fn lemma_seq_count_enum(p: spec_fn(int) -> bool, q: spec_fn(int) -> bool, hi: int)
    ensures seq_count(enum_upto(p, hi), enum_upto(p, hi).len() as int, q) == count_upto(|j: int| p(j) && q(j), hi),
    decreases hi,
{
    if hi > 0 {
        lemma_seq_count_enum(p, q, hi - 1);
        let s = enum_upto(p, hi - 1);
        if p(hi - 1) {
            lemma_seq_count_prefix(s, hi - 1, s.len() as int, q);
            assert(s.push(hi - 1)[s.len() as int] == hi - 1);
        }
    }
}

// vacuity canary (MUST be reported as failed): resize_inner's precondition is satisfiable with a non-empty table
proof fn canary_resize_pre(t: &RawTableInner, capacity: usize)
    requires t.shape(), t.mirrored(), t.elems@.len() == t.nb(), t.items as nat == count_upto(t.full_fn(), t.nb()), t.items <= capacity, t.items > 0,
    ensures false {}
